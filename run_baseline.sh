#!/bin/bash
# Runs the repository's pinned test command with the verification guard OFF and prints the summary.
cd "${VERIF_REPO:-/repo}" && env -u ODATA_QUERY_VERIF /venv/bin/python -m pytest -ra -q -p no:cacheprovider --timeout=900 --continue-on-collection-errors "$@"
