# Template of the per-round confirmation loop (round 12): baseline, demo with / without, check with VERIF_REPO.
cd /verif
for i in $(seq -w 1 20); do c=C$i; w=/tmp/seed12_$c; [ -d $w/SEED ] || { echo "$c no seed"; continue; }
cd $w; git diff -- odata_query > /tmp/s12p_$c.diff
b=$(PYTHONPATH=$w /venv/bin/python -m pytest -q -p no:cacheprovider --no-cov --continue-on-collection-errors 2>&1 | tail -1 | cut -c1-40)
dj=""
if git diff --name-only | grep -q django; then dj=" dj[$(PYTHONPATH=$w DJANGO_SETTINGS_MODULE=tests.integration.django.settings /venv/bin/python -m pytest -q -p no:cacheprovider --no-cov tests/integration/django 2>&1 | tail -1 | cut -c1-40)]"; fi
(cd SEED && PYTHONPATH=$w timeout 600 /venv/bin/python demo.py >/dev/null 2>&1); r1=$?
git apply -R /tmp/s12p_$c.diff; (cd SEED && PYTHONPATH=$w timeout 600 /venv/bin/python demo.py >/dev/null 2>&1); r2=$?; git apply /tmp/s12p_$c.diff
cd /verif
out=$(VERIF_REPO=$w ./vcheck $c --tier quick --no-evidence 2>&1); rc=$?
echo "$c base[$b]$dj demo with=$r1 without=$r2 check rc=$rc $(echo "$out" | grep -A1 '^VIOLATION' | grep what | head -1 | cut -c1-150)"
done
