#!/bin/bash
# usage: tools/seedcheck.sh C01 [extra checks...]  - confirm a seeded change in /tmp/seed_<id> and run the property's check on it
id=$1; shift
w=${SEED_PREFIX:-/tmp/seed}_$id
cd $w || exit 2
echo "== patch: $(git diff --stat -- odata_query | tail -1)"
echo "== baseline with change: $(PYTHONPATH=$w /venv/bin/python -m pytest -q -p no:cacheprovider --no-cov --continue-on-collection-errors 2>&1 | tail -1)"
if git diff --name-only | grep -q django; then
echo "== django tests with change: $(PYTHONPATH=$w DJANGO_SETTINGS_MODULE=tests.integration.django.settings /venv/bin/python -m pytest -q -p no:cacheprovider --no-cov tests/integration/django 2>&1 | tail -1)"
fi
echo "== demo with change: $(cd SEED && PYTHONPATH=$w /venv/bin/python demo.py 2>&1 | tail -1) rc=$?"
git stash -q
echo "== demo without change: $(cd SEED && PYTHONPATH=$w /venv/bin/python demo.py 2>&1 | tail -1)"
git stash pop -q
cd /verif
for c in $id "$@"; do
  out=$(VERIF_REPO=$w ./vcheck $c --tier quick --no-evidence 2>&1); rc=$?
  echo "== check $c on seeded tree: rc=$rc"
  echo "$out" | grep -A1 "^VIOLATION" | grep what | head -3 | cut -c1-400
  echo "$out" | grep -E "^(INCONCLUSIVE|HELD)" | head -2 | cut -c1-300
done
