#!/bin/bash
# Re-runs every seeded change under /verif/seeded against the current checks.
# For each: scratch worktree of /repo (current HEAD if the patch still applies, else the seed's base commit),
# apply patch.diff, run the property's quick check with VERIF_REPO, remove the worktree.
cd "$(dirname "$0")/.."
out=${SEEDRUN_OUT:-seeded/RESULTS.md}
echo "| seed | base | check rc | first violation |" > $out.tmp
echo "|---|---|---|---|" >> $out.tmp
for d in seeded/C*/; do
  name=$(basename $d); prop=${name%%-*}
  # SEEDRUN_ONLY=<extended regex on the directory name> restricts the run (e.g. to run halves in parallel)
  if [ -n "$SEEDRUN_ONLY" ] && ! echo "$name" | grep -Eq "$SEEDRUN_ONLY"; then continue; fi
  w=$(mktemp -d /tmp/seedrun_XXXX); rmdir $w
  base=HEAD
  git -C /repo worktree add -q --detach $w HEAD 2>/dev/null
  force=$(python3 -c "import json;print(json.load(open('$d/meta.json')).get('force_base',''))")
  if [ -n "$force" ] || ! git -C $w apply --check $PWD/$d/patch.diff 2>/dev/null; then
    git -C /repo worktree remove --force $w
    base=$(python3 -c "import json;print(json.load(open('$d/meta.json'))['repo_base_commit'])")
    git -C /repo worktree add -q --detach $w $base
  fi
  git -C $w apply $PWD/$d/patch.diff
  res=$(VERIF_REPO=$w ./vcheck $prop --tier quick --no-evidence 2>&1); rc=$?
  first=$(echo "$res" | grep -A1 '^VIOLATION' | grep what | head -1 | cut -c1-140 | tr '|' '/')
  [ $rc -eq 2 ] && first=$(echo "$res" | grep '^INCONCLUSIVE' | head -1 | cut -c1-140)
  echo "| $name | $base | $rc | $first |" >> $out.tmp
  echo "$name base=$base rc=$rc"
  git -C /repo worktree remove --force $w
done
git -C /repo worktree prune
mv $out.tmp $out
