#!/usr/bin/env python3
"""Regenerates /verif/MANIFEST.json from the table below (kept in one place so the
manifest, the checks and DESIGN.md do not drift)."""
import json
import os

HERE = os.path.dirname(os.path.dirname(os.path.abspath(__file__)))

# id -> (technique, level text, level note, design ref)
P = {
    "C05": ("reference-printer round trip monitor: exhaustive operator pairs/triples + random "
            "terms through the real parser, decoded AST compared with the generator's term",
            "Exploration by runtime monitoring: every tree with 2 and 3 operator nodes (14 binary "
            "+ 2 unary operators, all shapes) is printed minimally and fully parenthesised by an "
            "independent printer that knows only the OData precedence table, parsed by the real "
            "parser under the M-parse contract, and compared with the term; random full-grammar "
            "terms beyond. Exhaustive for pairs/triples, sampled beyond - held on what was run, "
            "not a proof for all depths.",
            "trusted: vpmon/gen/terms.py precedence table + printer, vpmon/ref/decode.py",
            "DESIGN.md 2/C05"),
    "C10": ("contract on ODataParser.parse (M-parse) + outcome/determinism monitor + "
            "sys.monitoring step-bound monitor over exhaustive atom sequences, mutations, "
            "Unicode and 64 KB repetitive inputs",
            "Exploration by runtime monitoring: every string of <=3 (quick) / <=4 (thorough) "
            "lexical atoms exhaustively, token-level mutations of valid filters, random Unicode "
            "and long repetitive inputs up to 64 KB are parsed by the real lexer/parser on a "
            "fresh and on a long-lived instance pair; monitors: result is an AST node or the "
            "exception is an ODataException subclass, both instance pairs agree, grammar steps "
            "<= 40 x tokens + 100 (bounded progress instead of 'terminates'). Held on the "
            "strings produced, not on all strings.",
            "trusted: step accounting via sys.monitoring PY_START in odata_query/grammar.py; "
            "wall-clock watchdog firing = inconclusive",
            "DESIGN.md 2/C10"),
    "C11": ("monitor on ODataParser._function_call (M-call) + reference arity table over the "
            "exhaustive (name x argument count x context) matrix",
            "Exploration by runtime monitoring, exhaustive over the stated finite matrix: 33 "
            "built-ins + ~300 near-miss names x 0..5 arguments x 4 contexts, custom namespaces "
            "with 0..5 positional / 1..5 named parameters; the accept/raise decision, exception "
            "class and fields, and argument order are compared with a table written from the "
            "specification; the M-call hook confirms the real decision function saw exactly "
            "the (name, count) written.",
            "trusted: vpmon/ref/functable.py (arity table from the OData 4.01 spec)",
            "DESIGN.md 2/C11"),
    "C06": ("value monitor: ABNF-driven literal/identifier spellings generated together with "
            "their meaning, parsed by the real lexer in 11 contexts, node kind/.val/.py_val "
            "compared with the independently computed value",
            "Exploration by runtime monitoring: per literal kind thousands of spellings from the "
            "ABNF (boundary values of each date/time field swept deterministically, all duration "
            "component subsets x signs x fractions, hostile string contents) and identifiers up "
            "to the length limit incl. keyword-prefixed names, each embedded in rotating "
            "contexts; the oracle is the value the generator computed (Fraction arithmetic for "
            "floats/durations). Held on the spellings produced.",
            "trusted: vpmon/gen/literals.py value computation; tolerance 1us + 1e-15 relative "
            "for durations",
            "DESIGN.md 2/C06"),
    "C13": ("round-trip monitor on the real renderer and parser (parse -> render -> parse, "
            "library equality + decoded-term equality + fixpoint), M-immut on the renderer",
            "Exploration by runtime monitoring: ASTs in the image of the parser (exhaustive "
            "operator pairs/triples in two renderings; random full-grammar terms with all "
            "literal kinds, hostile strings, singleton lists, right-nested equal precedence, "
            "namespaces, paths, lambdas, named parameters) are rendered by AstToODataVisitor "
            "and re-parsed; equality is checked on the library AST and on the independently "
            "decoded term, and the second rendering must equal the first.",
            "trusted: vpmon/ref/decode.py; only the parser's image is judged",
            "DESIGN.md 2/C13"),
    "C14": ("reference-substitution monitor on AliasRewriter.visit + M-immut + bijection/inverse",
            "Exploration by runtime monitoring: random full-grammar ASTs x alias maps built from "
            "the tree's own identifiers/paths/owner prefixes and the collision classes "
            "(function names, named-parameter names, lambda variables, bound paths, non-members), "
            "targets identifiers/paths/calls, with fresh and caller-supplied (used, previously "
            "failed) lexer/parser instances; the real rewriter's output is decoded and compared "
            "with a capture-free reference substitution; the input tree is snapshotted around "
            "the call (M-immut); identity and bijection+inverse laws are checked.",
            "trusted: vpmon/ref/subst.py; prefix-overlapping keys not generated",
            "DESIGN.md 2/C14"),
    "C16": ("online trace checker on an instrumented NodeVisitor (enter events vs reference "
            "pre-order), per-kind handler/override harness, M-immut on every shipped visitor, "
            "equality vs structural identity",
            "Exploration by runtime monitoring: for random full-grammar ASTs the sequence of "
            "visit() entries of the real base class must be the depth-first field pre-order "
            "(identity-based, each node once); one recording handler per node kind must fire for "
            "exactly that kind's nodes; NodeTransformer without overrides returns an equal tree "
            "and with one replacing override equals a reference map; all 10 shipped visitors run "
            "under the M-immut snapshot monitor (also when they raise); == is compared with "
            "decoded-term identity on re-parsed twins, deep copies and single-point mutations.",
            "trusted: dataclasses.fields order as the reference traversal order; decode.py",
            "DESIGN.md 2/C16"),
    "C17": ("reference re-rooting monitor on expression_relative_to_identifier + M-immut",
            "Exploration by runtime monitoring: random full-grammar expressions with hostile "
            "placements of the variable name (path root at depth 1..4, inner segment, attribute "
            "name, namespaced identifier, plain field, inside calls/lists/named parameters/"
            "nested lambdas) are made relative by the real function; the decoded result is "
            "compared with a reference re-rooting; input snapshot compared around the call.",
            "trusted: vpmon/ref/subst.py::reroot_ref; same-name re-binding lambdas excluded",
            "DESIGN.md 2/C17"),
    "C18": ("icontract postcondition on typing.infer_type (M-infer) + typed-generator oracle + "
            "negative typecheck matrix through the real Django/SQLAlchemy visitors",
            "Exploration by runtime monitoring: every built-in function with arguments of every "
            "admissible kind nested to depth 3 from a generator that knows each term's type; "
            "infer_type of every sub-node must be None or the class of the reference static "
            "type, typecheck against the actual type never raises; the (function x argument "
            "position x 12 literal kinds x 3 backends) negative matrix must raise "
            "ArgumentTypeException exactly for non-string literals.",
            "trusted: vpmon/ref/types.py + functable.RETURNS (from the specification)",
            "DESIGN.md 2/C18"),
    "C20": ("offline history checker (outcome of every call vs fresh-instance model) over shared/"
            "crossed/abandoned/interleaved/nested/threaded histories and hash-seed x import-order "
            "child processes",
            "Exploration by runtime monitoring: histories of 5..50 calls on shared and crossed "
            "(lexer, parser) instances mixing valid inputs and all error classes, abandoned and "
            "step-interleaved tokenize() generators, parses nested inside another parse's token "
            "pulls, threads with own instances under switch interval 1e-6 (thorough: seeded "
            "sleep(0) injection at LINE events inside the LR loop, distinct hand-off points "
            "counted), fresh child processes per PYTHONHASHSEED x import order comparing outcome "
            "digests over a 600-string corpus, AliasRewriter on used instances. Every recorded "
            "outcome (AST fingerprint or exception class+message) must equal the model.",
            "trusted: model = fresh ODataLexer/ODataParser on the same input; sharing one lexer "
            "between threads is not claimed",
            "DESIGN.md 2/C20"),
    "C07": ("non-interference monitor: SQL token skeleton (independent lexer) of the real "
            "visitors' output under payload substitution, plus executed SQLite variant with a "
            "canary table",
            "Exploration by runtime monitoring: 45 filter templates with one string position "
            "(every argument of every string function, comparison sides, in-list slots, nested "
            "calls) x ~55 pooled + random hostile payloads x 3 dialects x alias on/off. The "
            "token skeleton outside string literals / quoted identifiers must equal that of "
            "the benign baseline, the payload must sit in exactly one STR token, and the SQLite "
            "text is run with executescript next to a canary table and compared with a direct "
            "Python evaluation.",
            "trusted: vpmon/ref/sql_lex.py (SQL-92 lexical rules); alias is developer input",
            "DESIGN.md 2/C07"),
    "C09": ("M-part hook (string returned by every nested visit) + independent "
            "standard-precedence SQL parser with token spans: fragment-is-a-complete-subtree, "
            "operator/operand-order, leaf-count and alias monitors",
            "Exploration by runtime monitoring: typed filters over every function the SQL "
            "dialects implement, arbitrarily composed, with unique leaves, x 3 dialects x alias "
            "on/off; the produced text must lex and parse, every sub-expression's own rendering "
            "(recorded by the visit hook) must occupy a complete subtree of the independent "
            "parse, operator nodes must map to the corresponding SQL operator with operands in "
            "source order (AND/OR and || chains modulo associativity), unique leaves outside "
            "calls must occur exactly once, and stripping the alias must give the alias-free "
            "text.",
            "trusted: vpmon/ref/sql_parse.py precedence table; refusals with a library "
            "exception are outside the SQL-expressible fragment",
            "DESIGN.md 2/C09"),
    "C01": ("reference-model monitor: real SQLite executes the dialect's WHERE text on "
            "adversarial rows, selected ids compared with a three-valued OData reference "
            "evaluator (UNSPEC rows excluded); metamorphic min/full parenthesisation pairs",
            "Exploration by runtime monitoring: typed Bool-rooted filters over every operator "
            "and function of the SQLite dialect, depth <= 4 (quick) / 6 (thorough), each executed "
            "as SELECT id FROM t WHERE <text> on an in-memory SQLite holding the cross product "
            "of adversarial per-column domains (<= 400 rows); the set of returned ids must equal "
            "the rows the reference evaluator marks TRUE, rows it marks UNSPEC (behaviour not "
            "pinned by the property) are excluded and counted. Known findings are keyed by "
            "mechanism flags raised on the mismatching rows only.",
            "trusted: vpmon/ref/odata_eval.py, SQLite 3.40.1 as execution oracle",
            "DESIGN.md 2/C01"),
    "C02": ("reference-model monitor: the real Django shorthand executes on in-memory SQLite "
            "(harness model) over adversarial rows; returned ids vs three-valued reference "
            "evaluator",
            "Exploration by runtime monitoring: typed filters of the Django-supported scalar "
            "fragment (both comparison orientations, field-to-field, in-lists, null tests in "
            "both orientations, and/or/not, boolean functions bare/negated/compared, every "
            "mapped string/date/math function) run through apply_odata_query on a real "
            "QuerySet; ids must equal the rows the reference evaluator marks TRUE (UNSPEC rows "
            "excluded). The Django backend is not collected by the pinned test command at all.",
            "trusted: vpmon/ref/odata_eval.py; Django 6.1 + SQLite as execution oracle",
            "DESIGN.md 2/C02"),
    "C03": ("reference-model monitor over three SQLAlchemy entry styles + pairwise agreement "
            "+ keyword-case metamorphic pairs, executed on in-memory SQLite",
            "Exploration by runtime monitoring: typed filters of the SQLAlchemy-supported "
            "fragment through apply_odata_query(select(Model.id)), apply_odata_query("
            "session.query(Model)) and apply_odata_core(select(table.c.id)); each style's ids "
            "must equal the reference evaluator's TRUE rows (hence each other), and a randomly "
            "re-cased spelling of the same filter must select the same ids in every style.",
            "trusted: vpmon/ref/odata_eval.py; strpos/concat/floor/ceil UDFs of the harness",
            "DESIGN.md 2/C03"),
    "C12": ("M-fall / M-part hooks on the visitor base class + leaf-presence and exception-class "
            "monitors over the exhaustive (node kind x position x backend) matrix; ORM "
            "statements executed",
            "Exploration by runtime monitoring, exhaustive over the stated matrix (~430 cells x 7 "
            "backends): each cell's well-typed filter is translated by the real backend with the "
            "visit hooks on; a returned result must show no value node falling through to "
            "generic_visit, no nested visit returning None, and every unique field/literal leaf "
            "in the output (SQL tokens, Q/expression tree, SQLAlchemy clause iteration); a raised "
            "exception must be an ODataException (NotImplementedError only for Core on "
            "paths/lambdas; InvalidFieldException for unknown fields on SQLAlchemy). Django and "
            "SQLAlchemy statements are also executed so late failures surface.",
            "trusted: harness models T/Post; geo.* on Django and DB-missing SQL functions are "
            "classified as environment, not judged",
            "DESIGN.md 2/C12"),
    "C04": ("reference-model monitor over object graphs: both real ORM shorthands executed on "
            "small database instances (canonical + random), returned parent ids vs a three-valued "
            "reference evaluation of navigation and any/all lambdas; ORM-vs-ORM agreement; "
            "duplicate-parent monitor",
            "Exploration by runtime monitoring: relational filters (to-one paths to depth 3, "
            "relationship null tests, any()/any(x:p)/all(x:p) with collection and path owners, "
            "nesting depth 2, and/or/not with plain predicates, roots Post and Author) run "
            "through the Django and the SQLAlchemy ORM shorthand against the same instance: one "
            "canonical instance containing every pass/fail pattern of 0..3 children, NULL foreign "
            "keys and shared many-to-many children, plus random instances. Each backend's parent "
            "ids (as a list, so duplicates are visible) must equal the reference set.",
            "trusted: vpmon/gen/relational.py reference evaluator; to-one navigation inside "
            "lambda bodies is generated in a reported-only lane (outside the quantifier)",
            "DESIGN.md 2/C04"),
    "C08": ("M-drv driver-boundary monitor (Django execute_wrapper, SQLAlchemy "
            "before_cursor_execute): SQL text equality across literal assignments, marker "
            "absence in text, value presence in parameters",
            "Exploration by runtime monitoring: filter skeletons of the ORM-supported scalar and "
            "relational fragments are instantiated with 2..3 assignments of hostile marker values "
            "and executed through Django, SQLAlchemy ORM (select and legacy Query) and Core; the "
            "(sql, params) pair observed at the driver must have identical text across "
            "assignments, contain no marker in the text and carry every value in the parameter "
            "list (after the backend's own adaptation).",
            "trusted: the driver hooks see exactly what is handed to sqlite3",
            "DESIGN.md 2/C08"),
    "C15": ("reference-model monitor on (base query x filter) products for both ORMs + "
            "driver-boundary join counter + offline comparison of sqlalchemy.func observations "
            "across import histories in fresh processes",
            "Exploration by runtime monitoring: 18 SQLAlchemy and 12 Django base queries "
            "(filtered, ordered, column subsets, pre-joined by relationship/target/ON, inner and "
            "outer, unrelated joins, annotated, select_related, Manager vs QuerySet, legacy Query, "
            "already OData-filtered) x relational filters x instances: the shorthand's id list must "
            "equal the base's own rows filtered by the reference evaluator (same order for "
            "ordered bases, same multiplicity), the emitted SQL may join author/country at most "
            "once; fresh processes per PYTHONHASHSEED compare sqlalchemy.func.<name> (class, "
            "module, SQLite and PostgreSQL compilation, type) between control / before-import / "
            "after-import / after-use histories.",
            "trusted: reference evaluator of vpmon/gen/relational.py; LIMIT/OFFSET bases excluded",
            "DESIGN.md 2/C15"),
    "C19": ("metamorphic monitor: whitespace / keyword-case variants from the reference printer "
            "through the real parser (decoded trees compared by literal value) and through 6 "
            "backends (executed ids on SQLite / Django / SQLAlchemy, token-normalised text for "
            "the standard and Athena dialects)",
            "Exploration by runtime monitoring: accepted full-grammar filters are re-spelled with "
            "random non-empty whitespace runs, optional whitespace at every position the grammar "
            "allows, and random letter case of operator and literal keywords; each variant must "
            "parse to the same tree with the same literal values, and typed filters must give "
            "identical results on every backend for both spellings.",
            "trusted: the variant generator inserts whitespace only where the statement allows "
            "it; function names, identifiers and GUID digits are left alone",
            "DESIGN.md 2/C19"),
}

NOT_BUILT_REASON = "check not built yet in this round (design in DESIGN.md section 2); not claimed"


def main():
    ids = ["C%02d" % i for i in range(1, 21)]
    checks, na = [], []
    for pid in ids:
        if pid not in P:
            na.append({"property_id": pid, "reason": NOT_BUILT_REASON})
            continue
        tech, text, note, ref = P[pid]
        checks.append({
            "property_id": pid,
            "quick_cmd": "./vcheck %s --tier quick" % pid,
            "thorough_cmd": "./vcheck %s --tier thorough" % pid,
            "evidence_file": "/verif/evidence/%s.json" % pid,
            "replay_cmd_template": "./vcheck %s --replay {path}" % pid,
            "engine": "vpmon",
            "level_claimed": {"category": "exploration", "text": text, "design_ref": ref},
            "level_note": note,
            "technique": tech,
        })
    m = {
        "version": 1,
        "setup_cmd": ("PIP_NO_INDEX=1 /venv/bin/python -m pip install -q --no-index "
                      "--find-links /opt/veriftools/wheels --target /verif/.deps icontract "
                      "&& /venv/bin/python -c \"import sys; sys.path.insert(0,'/verif/.deps'); "
                      "import icontract\""),
        "hooks": {
            "guard": "ODATA_QUERY_VERIF",
            "enable": ("no source hooks: all instrumentation is installed from outside by "
                       "./vcheck (method rebinding with icontract contracts, sys.monitoring, ORM "
                       "event APIs); ./vcheck exports ODATA_QUERY_VERIF=1 and puts /repo's "
                       "working tree first on PYTHONPATH"),
            "baseline_off_cmd": ("cd /repo && env -u ODATA_QUERY_VERIF /venv/bin/python -m pytest "
                                 "-ra -q -p no:cacheprovider --timeout=900 "
                                 "--continue-on-collection-errors"),
            "source_commits": [],
            "add_only": True,
        },
        "engines": [{
            "name": "vpmon", "path": "/verif/vpmon",
            "serves_properties": [c["property_id"] for c in checks],
            "kind_free_text": ("runtime monitoring: generated hostile workloads through the real "
                               "library with contracts on the real functions, reference-model "
                               "oracles, real database engines, offline history checkers"),
        }],
        "checks": checks,
        "not_applicable": na,
        "notes": ("Exit codes: 0 held, 1 VIOLATION, 2 INCONCLUSIVE (never on the unchanged tree). "
                  "Known findings: /verif/KNOWN_FINDINGS.txt. VERIF_REPO=<dir> points the checks "
                  "at a scratch copy (self-test with mutants)."),
    }
    with open(os.path.join(HERE, "MANIFEST.json"), "w") as f:
        json.dump(m, f, indent=1)
        f.write("\n")


if __name__ == "__main__":
    main()
