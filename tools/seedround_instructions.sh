# Template used for round 12 of the seeded changes: writes INSTRUCTIONS.txt into the scratch worktrees /tmp/seed12_Cxx
# (created before with `git -C /repo worktree add --detach` + PROPERTY.txt). Replace seed12 by the new round.
for i in $(seq -w 1 20); do w=/tmp/seed12_C$i; cat > $w/INSTRUCTIONS.txt <<EOF
You are helping test a verification effort for the Python library gorilla-co/odata-query (OData v4 \$filter
parser built with SLY producing a frozen-dataclass AST; visitors transpile to raw SQL dialects (standard, SQLite,
Athena), OData text (round-trip), Django Q objects and SQLAlchemy ORM/Core clauses).

Work ONLY inside this scratch git worktree: $w . Do NOT read or touch /verif or /repo or any other /tmp/seed*
directory. Use /venv/bin/python and always put the worktree first on the path:
    cd $w && PYTHONPATH=$w /venv/bin/python ...
Do NOT use \`git stash\` (the stash is shared between worktrees and other people are working in parallel): to test
"without the change" save your patch (\`git diff -- odata_query > /tmp/seed12_patch_C$i.diff\`), run
\`git apply -R /tmp/seed12_patch_C$i.diff\`, test, then \`git apply /tmp/seed12_patch_C$i.diff\` again.

$w/PROPERTY.txt states one semantic property the library should satisfy. Your job: write ONE small, realistic
change to the library source under $w/odata_query/ (the kind of bug a developer could plausibly introduce in a
refactor, an "optimisation", a "clean-up", a compatibility shim, a robustness guard or a feature addition) that
BREAKS this property, while
  (1) the library still imports and compiles, and
  (2) the repository's existing tests still pass completely. Run before and after:
        cd $w && PYTHONPATH=$w /venv/bin/python -m pytest -q -p no:cacheprovider --no-cov --continue-on-collection-errors 2>&1 | tail -3
      expected: "648 passed, 10 xfailed, 4 errors" (the 4 collection errors are Django tests needing settings: expected,
      they must stay exactly the same). If you touch anything under odata_query/django/ ALSO run
        cd $w && PYTHONPATH=$w DJANGO_SETTINGS_MODULE=tests.integration.django.settings /venv/bin/python -m pytest -q -p no:cacheprovider --no-cov tests/integration/django 2>&1 | tail -2
      expected: "98 passed, 80 skipped, 3 xpassed".

Assume a thorough reviewer and strong automated testing with very large numbers of generated inputs, executed on
real databases against an independent reference. ALL of the following will be noticed, so do not rely on them:
straightforward single-site changes; caches / memoisation / state left on instances, classes or modules; ordinary
and boundary values (empty, NULL, zero, negative, Int64 extremes, values beyond 2**53, non-dyadic fractions, exact
.5 midpoints, exponent notation, whole-number floats, year 1 / 9999, nonexistent calendar dates, signed or
degenerate durations, doubled separators); sizes and thresholds (long lists, chains, paths, whitespace, nesting,
"more than N" / "exactly N characters", the recursion limit); letter case, whitespace kinds, Unicode look-alikes,
digits, lone surrogates; strings that contain quotes, wildcards, brackets, entities, percent-encodings, plus signs,
template placeholders, regular-expression syntax, or that spell another literal / keyword; tokens that look like
another literal kind; identifiers colliding with keywords, word operators, functions, lambda variables, their own
collection, Python / ORM attribute names; namespaces anywhere; the same sub-expression or value repeated; operand
order and argument position; call spellings (trailing comma, named parameters, lists as arguments); boolean constants
and predicates as operands; math / string / date functions applied to integer-typed or nested-function arguments;
parser-level idiom rewriting and constant folding; int / float / decimal / date / duration type combinations; schema
decorations (indexes, NOT NULL / dangling / one-to-one / self-referential keys, decimal columns, same-named
relationships, hidden columns, aliased entities, select_from, non-default managers, loader hints); Django settings
(USE_TZ, TIME_ZONE); how a queryset is consumed; unterminated or truncated input; error paths and anything that
happens after a previous failure; handlers that raise or return odd results; subclasses of the shipped visitors;
reuse / sharing of lexer, parser, visitor or rewriter instances; hash seed and import order; text-level scanning of
rendered output; precedence of unary minus / not / in in the source and in SQL; the null-swap and IS NULL forms;
stacked unary operators; one number spelled as integer here and as float there (2 vs 2.0) among sibling operands;
every single Unicode code point inside and between literals (sentinels, line terminators); integers beyond 64 bits and
very long strings; every spelling of zero with a sign; every bracketing of mixed int / float operand chains; relations
declared with related_name / related_query_name; handlers that are selective by identity or position; compile hooks on
third-party functions; input that ends in the middle of a token; date-time literals with UTC offsets of every sign and
minute part, fractional seconds of every length; interval / duration columns with huge and microsecond-apart values;
boolean-valued operands (constants, groups, negations) on both sides of eq / ne; named parameters whose names repeat;
refused calls around deep arguments; one relationship used as path owner and as compared value; collections behind
to-one paths under any / all with and without or / not / null elsewhere; what the shipped translators ask the type
inference (any keyword); inner vs outer joins.
Find something ELSE: a genuinely different mechanism that needs a SPECIFIC and UNUSUAL situation to manifest. Think
about what the code ASSUMES without checking: which node kinds can appear where; the relation between two visitor
methods or two backends; what a helper returns for a rare input; the ORM's or the database engine's semantics
(three-valued logic, type affinity, collations, implicit casts, function semantics on NULL / empty / negative /
out-of-range arguments, 0- vs 1-based indexes, rounding, offsets, date arithmetic across month ends and leap years,
string comparison rules, LIKE semantics); Python semantics (truthiness, equality vs identity, str methods, format
specs, integer / float conversion, datetime arithmetic, dataclass behaviour, iteration order, generator laziness,
default arguments); interplay between TWO functions or operators nested in each other in a particular order; the
difference between what is VALIDATED and what is USED; what happens to the SECOND occurrence of something.
It must still be a REAL violation of the stated property for some input the property's quantifier covers (do not rely
on ill-typed filters or on inputs the statement excludes). Prefer silent semantic breakage (wrong result) over
crashes. Keep the patch small and plausible. Be original: write down six candidate ideas first, discard the four
most obvious, and implement the more unusual of the remaining two.

Deliverables, all inside $w/SEED/ (create the directory):
  - patch.diff : output of \`cd $w && git diff -- odata_query\` (library source changes only).
  - demo.py    : standalone program (run as \`PYTHONPATH=<tree> /venv/bin/python demo.py\`) that exits 0 and prints PASS
                 when the property holds for its scenario and exits 1 and prints FAIL when it does not. It must FAIL with
                 your change and PASS without it (verify both). It must really exercise the property (execute SQL on
                 in-memory sqlite3 / run the ORM / compare ASTs or values computed independently), not compare strings
                 with the previous output. For Django configure it yourself (django.conf.settings.configure, in-memory
                 sqlite3, tiny models with app_label, schema_editor).
  - notes.md   : 5-10 lines: what you changed, why the existing tests do not notice, exactly what is needed to trigger it.
Leave the change applied in the worktree. In your final answer summarise the change and the trigger and confirm the
verifications (tests pass with the change; demo FAILs with it; demo PASSes without it).
EOF
done; echo ok