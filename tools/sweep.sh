#!/bin/bash
# usage: tools/sweep.sh <tier> <seed>...   runs every check, prints one line per check (no evidence rewrite)
tier=$1; shift
cd "$(dirname "$0")/.."
for seed in "$@"; do
  for i in $(seq -w 1 20); do
    out=$(VERIF_SEED=$seed ./vcheck C$i --tier $tier --no-evidence 2>&1)
    rc=$?
    echo "seed=$seed C$i rc=$rc $(echo "$out" | grep -E '^(HELD|VIOLATION|INCONCLUSIVE)' | head -3 | tr '\n' ' ' | cut -c1-300) $(echo "$out" | grep -E 'wall=' | sed 's/.*wall=/wall=/')"
  done
done
