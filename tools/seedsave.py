#!/usr/bin/env python3
"""usage: seedsave.py <Cxx> <name> <needs...text> -- copies /tmp/seed_<Cxx>/SEED into /verif/seeded/<Cxx>-<name>/
and writes meta.json; detection results are appended by seedrun (tools/seedrun.sh)."""
import json, os, shutil, subprocess, sys
PREFIX = os.environ.get("SEED_PREFIX", "/tmp/seed")
pid, name, needs = sys.argv[1], sys.argv[2], sys.argv[3]
caught = sys.argv[4:] 
src = "%s_%s/SEED" % (PREFIX, pid)
dst = "/verif/seeded/%s-%s" % (pid, name)
os.makedirs(dst, exist_ok=True)
for f in os.listdir(src):
    if os.path.isfile(os.path.join(src, f)):
        shutil.copy(os.path.join(src, f), os.path.join(dst, f))
# regenerate the patch from the worktree to be sure it matches what was tested
patch = subprocess.run(["git", "-C", "%s_%s" % (PREFIX, pid), "diff", "--", "odata_query"], capture_output=True, text=True).stdout
open(os.path.join(dst, "patch.diff"), "w").write(patch)
base = subprocess.run(["git", "-C", "%s_%s" % (PREFIX, pid), "rev-parse", "--short", "HEAD"], capture_output=True, text=True).stdout.strip()
meta = {
    "property": pid, "name": name, "source": "independent sub-agent given only the property text and a scratch worktree",
    "repo_base_commit": base,
    "needs_to_manifest": needs,
    "confirmed": {"baseline_with_change": "648 passed, 10 xfailed, 4 errors",
                  "demo_with_change": "FAIL", "demo_without_change": "PASS",
                  "how": "tools/seedcheck.sh %s (scratch worktree %s_%s, removed afterwards)" % (pid, PREFIX, pid)},
    "caught_by": caught,
}
json.dump(meta, open(os.path.join(dst, "meta.json"), "w"), indent=1)
print("saved", dst)
