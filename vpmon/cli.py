"""./vcheck Cxx [--tier quick|thorough] [--replay path] [--shards N]

Parent: fans out N worker subprocesses (subprocess, never multiprocessing.Pool), merges
their measurements, decides the three-valued verdict, writes evidence/<id>.json and the
replay files, prints VIOLATION / KNOWN-FINDING / INCONCLUSIVE lines.
Exit: 0 held on everything explored, 1 violation, 2 inconclusive.
"""
import argparse
import importlib
import json
import os
import shutil
import subprocess
import sys
import tempfile
import time
import traceback

from . import core

HERE = core.HERE


def load_check(prop):
    return importlib.import_module("vpmon.checks." + prop.lower())


def worker_main(args):
    chk = load_check(args.prop)
    ctx = core.Ctx(args.prop, args.tier, args.seed, args.shard, args.nshards,
                   budget_s=args.budget)
    import faulthandler
    faulthandler.enable()
    ctx.out_path = args.out
    try:
        chk.run(ctx)
    except BaseException:  # a crash of the harness itself is never a verdict
        ctx.mark_inconclusive("harness-error: " + traceback.format_exc()[-1500:])
    res = ctx.result()
    with open(args.out, "w") as f:
        json.dump(res, f)
    return 0


def replay_main(args):
    chk = load_check(args.prop)
    rec = json.load(open(args.replay))
    hs = rec.get("hashseed")
    shard_env = rec.get("shard_env") or {}
    if ((hs is not None and os.environ.get("PYTHONHASHSEED") != str(hs)) or shard_env) \
            and not os.environ.get("VPMON_REEXEC"):
        # reproduce under the hash seed / configuration of the shard that found it
        env = dict(os.environ, PYTHONHASHSEED=str(hs if hs is not None else 0), VPMON_REEXEC="1", **shard_env)
        return subprocess.call([sys.executable, "-m", "vpmon.cli", args.prop, "--replay", args.replay],
                               env=env, cwd=HERE)
    ctx = core.Ctx(args.prop, rec.get("tier", "quick"), rec.get("seed", 0))
    ctx.known = {}  # a replay shows the raw outcome
    if not hasattr(chk, "replay"):
        print("replay not supported for", args.prop)
        return 2
    chk.replay(ctx, rec["case"])
    if ctx.n_violations:
        for v in ctx.violations:
            print("REPRODUCED property=%s what=%s" % (args.prop, v["what"]))
            print("  expected:", json.dumps(v["expected"])[:2000])
            print("  observed:", json.dumps(v["observed"])[:2000])
        return 1
    print("NOT-REPRODUCED property=%s" % args.prop)
    return 0


def main(argv=None):
    ap = argparse.ArgumentParser()
    ap.add_argument("prop")
    ap.add_argument("--tier", default=os.environ.get("VERIF_TIER", "quick"),
                    choices=["quick", "thorough"])
    ap.add_argument("--seed", type=int, default=int(os.environ.get("VERIF_SEED", "0") or 0))
    ap.add_argument("--shards", type=int, default=0)
    ap.add_argument("--replay")
    ap.add_argument("--worker", action="store_true")
    ap.add_argument("--shard", type=int, default=0)
    ap.add_argument("--nshards", type=int, default=1)
    ap.add_argument("--budget", type=float, default=None)
    ap.add_argument("--out")
    ap.add_argument("--no-evidence", action="store_true")
    args = ap.parse_args(argv)
    args.prop = args.prop.upper()
    if args.worker:
        return worker_main(args)
    if args.replay:
        return replay_main(args)
    return parent_main(args)


def parent_main(args):
    t0 = time.time()
    chk = load_check(args.prop)
    tier = args.tier
    nshards = args.shards or getattr(chk, "SHARDS", {}).get(tier, 12)
    budget = getattr(chk, "BUDGET_S", {"quick": 60, "thorough": 900})[tier]
    hard = budget * 2 + 120
    tmp = tempfile.mkdtemp(prefix="vpmon_")
    procs = []
    for i in range(nshards):
        env = dict(os.environ)
        # every shard runs under its own (reproducible) hash seed, so behaviour that depends
        # on set / dict iteration order of the code under test is part of what is explored;
        # shard 0 keeps the launcher's seed
        if i:
            env["PYTHONHASHSEED"] = str((args.seed * 131 + i) % 4294967295)
        if hasattr(chk, "SHARD_ENV"):
            env.update(chk.SHARD_ENV(i, nshards))       # configurations a check spreads over its shards
        out = os.path.join(tmp, "shard%d.json" % i)
        cmd = [sys.executable, "-m", "vpmon.cli", args.prop, "--worker", "--tier", tier,
               "--seed", str(args.seed), "--shard", str(i), "--nshards", str(nshards),
               "--budget", str(budget), "--out", out]
        log = open(os.path.join(tmp, "shard%d.log" % i), "w")
        procs.append((i, out, log, subprocess.Popen(cmd, stdout=log, stderr=log, env=env,
                                                    cwd=HERE)))
    results, shard_fail = [], []
    for i, out, log, p in procs:
        left = max(5.0, hard - (time.time() - t0))
        try:
            rc = p.wait(timeout=left)
        except subprocess.TimeoutExpired:
            p.kill()
            p.wait()
            rc = "timeout"
        log.close()
        if rc == 0 and os.path.exists(out):
            results.append(json.load(open(out)))
        else:
            tail = open(log.name).read()[-800:]
            shard_fail.append({"shard": i, "rc": rc, "log_tail": tail})
            if os.path.exists(out + ".partial"):
                # what the shard had observed before it got stuck / died
                try:
                    results.append(json.load(open(out + ".partial")))
                except ValueError:
                    pass
    shutil.rmtree(tmp, ignore_errors=True)

    # ---- merge ---------------------------------------------------------------------
    counters, classes, notes, distinct = {}, {}, {}, set()
    samples, violations, known_seen, inconc = [], [], {}, []
    n_viol = 0
    for r in results:
        for k, v in r["counters"].items():
            counters[k] = counters.get(k, 0) + v
        for k, v in r["classes"].items():
            classes[k] = classes.get(k, 0) + v
        for k, v in r["notes"].items():
            notes[k] = max(notes.get(k, v), v)
        distinct.update(r["distinct"])
        if len(samples) < 8:
            samples.extend(r["samples"][:2])
        violations.extend(r["violations"])
        n_viol += r["n_violations"]
        for k, e in r["known_seen"].items():
            d = known_seen.setdefault(k, {"n": 0, "witness": e["witness"]})
            d["n"] += e["n"]
        for x in r["inconclusive"]:
            if x not in inconc:
                inconc.append(x)
    for sf in shard_fail:
        inconc.append("shard %s did not finish (rc=%s): %s" % (sf["shard"], sf["rc"],
                                                               sf["log_tail"][-300:]))
    merged = {"counters": counters, "classes": classes, "notes": notes,
              "distinct": len(distinct), "tier": tier, "seed": args.seed}
    # property-specific completeness requirements (monitor reached, cells filled ...)
    if hasattr(chk, "requirements") and not n_viol:
        for reason in chk.requirements(merged) or []:
            inconc.append(reason)
    evaluations = counters.get("evaluations", 0)
    if not n_viol and (evaluations < 1 or len(distinct) < 2):
        inconc.append("too few cases: evaluations=%d distinct=%d" % (evaluations,
                                                                      len(distinct)))

    verdict = "violated" if n_viol else ("inconclusive" if inconc else "held")

    # ---- replay files ---------------------------------------------------------------
    replay_paths = []
    if violations:
        rdir = os.path.join(HERE, "replays", args.prop)
        os.makedirs(rdir, exist_ok=True)
        seen_w = set()
        for v in violations:
            hid = "%016x" % core.h64([v["what"], v["case"]])
            if hid in seen_w or len(seen_w) >= 20:
                continue
            seen_w.add(hid)
            pth = os.path.join(rdir, hid[:12] + ".json")
            with open(pth, "w") as f:
                json.dump(v, f, indent=1)
            replay_paths.append((pth, v))

    # ---- evidence -------------------------------------------------------------------
    known_all = core.load_findings().get(args.prop, {})
    cov = {
        "evaluations": evaluations,
        "distinct_nontrivial": len(distinct),
        "rule": getattr(chk, "RULE", ""),
        "samples": samples[:8] if samples else [],
        "classes": dict(sorted(classes.items())),
        "monitors": {k: v for k, v in sorted(counters.items()) if k != "evaluations"},
        "notes": notes,
        "known_findings_seen": {k: {"events": e["n"],
                                    "witness": e["witness"]["case"],
                                    "what": e["witness"]["what"]}
                                for k, e in sorted(known_seen.items())},
        "known_findings_listed": sorted(known_all),
        "shards": {"ok": len(results), "failed": len(shard_fail)},
        "verdict": verdict,
        "inconclusive_reasons": inconc,
    }
    if getattr(chk, "EXHAUSTIVE", None):
        cov["exhaustive"] = bool(counters.get("exhaustive_complete", 0) >= nshards)
        cov["exhaustive_part"] = chk.EXHAUSTIVE
    ev = {
        "property_id": args.prop, "tier": tier, "seed": args.seed, "level": "exploration",
        "coverage": cov, "assumptions": getattr(chk, "ASSUMPTIONS", []),
        "wall_s": round(time.time() - t0, 2), "violations": n_viol,
    }
    if violations:
        cov["violation_samples"] = [{"what": v["what"], "case": v["case"],
                                     "expected": v["expected"], "observed": v["observed"]}
                                    for _, v in replay_paths[:5]]
    if not args.no_evidence:
        os.makedirs(os.path.join(HERE, "evidence"), exist_ok=True)
        with open(os.path.join(HERE, "evidence", args.prop + ".json"), "w") as f:
            json.dump(ev, f, indent=1, sort_keys=True, default=repr)
            f.write("\n")

    # ---- report ---------------------------------------------------------------------
    print("%s tier=%s seed=%d shards=%d/%d evaluations=%d distinct_nontrivial=%d wall=%.1fs"
          % (args.prop, tier, args.seed, len(results), nshards, evaluations, len(distinct),
             time.time() - t0))
    mon = ", ".join("%s=%d" % kv for kv in sorted(counters.items()) if kv[0] != "evaluations")
    if mon:
        print("monitors: " + mon[:1500])
    for k, e in sorted(known_seen.items()):
        print("KNOWN-FINDING: property=%s key=%s events=%d %s | witness: %s"
              % (args.prop, k, e["n"], known_all.get(k, ""),
                 json.dumps(e["witness"]["case"])[:300]))
    if n_viol:
        for pth, v in replay_paths:
            print("VIOLATION property=%s replay=%s" % (args.prop, pth))
            print("    what: %s | case: %s | observed: %s" % (
                v["what"], json.dumps(v["case"])[:400], json.dumps(v["observed"])[:200]))
        print("violations total: %d" % n_viol)
        return 1
    if inconc:
        for r in inconc:
            print("INCONCLUSIVE property=%s reason=%s" % (args.prop, r[:600]))
        return 2
    print("HELD property=%s on everything explored" % args.prop)
    return 0


if __name__ == "__main__":
    sys.exit(main())
