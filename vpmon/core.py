"""Worker-side context: counters, distinct-case hashes, samples, violations, findings."""
import hashlib
import json
import os
import random
import re
import time

HERE = os.path.dirname(os.path.dirname(os.path.abspath(__file__)))
FINDINGS_FILE = os.path.join(HERE, "KNOWN_FINDINGS.txt")

_LINE = re.compile(r"^(known|fixed):\s+property=(C\d+)\s+(.*)$")


def load_findings(path=FINDINGS_FILE):
    """-> {property: {key: what}} for 'known:' lines.  'fixed:' lines suppress nothing."""
    known = {}
    if not os.path.exists(path):
        return known
    for line in open(path, encoding="utf-8"):
        line = line.strip()
        m = _LINE.match(line)
        if not m or m.group(1) != "known":
            continue
        rest = m.group(3)
        km = re.match(r"key=(\S+)\s*(.*)$", rest)
        if not km:
            continue
        known.setdefault(m.group(2), {})[km.group(1)] = km.group(2)
    return known


def h64(obj):
    s = obj if isinstance(obj, str) else json.dumps(obj, sort_keys=True, default=repr)
    return int.from_bytes(hashlib.blake2b(s.encode("utf-8", "surrogatepass"),
                                          digest_size=8).digest(), "big")


def jsonable(x, depth=0):
    if depth > 40:
        return repr(x)
    if isinstance(x, (str, int, float, bool)) or x is None:
        return x
    if isinstance(x, (list, tuple)):
        return [jsonable(i, depth + 1) for i in x]
    if isinstance(x, (set, frozenset)):
        return sorted((jsonable(i, depth + 1) for i in x), key=repr)
    if isinstance(x, dict):
        return {str(k): jsonable(v, depth + 1) for k, v in x.items()}
    return repr(x)


class Ctx:
    MAX_VIOL = 25
    MAX_SAMPLES = 6

    def __init__(self, prop, tier, seed, shard=0, nshards=1, budget_s=None):
        self.prop, self.tier, self.seed = prop, tier, seed
        self.shard, self.nshards = shard, nshards
        self.t0 = time.time()
        self.budget_s = budget_s
        self.counters = {}
        self.classes = {}
        self.distinct = set()
        self.samples = []
        self.violations = []      # dicts
        self.n_violations = 0
        self.known_seen = {}      # key -> {"n":..,"witness":..}
        self.known = load_findings().get(prop, {})
        self.notes = {}
        self.inconclusive = []
        self._sigs = {}

    # -- randomness ------------------------------------------------------------------
    def rng(self, name=""):
        return random.Random(h64("%s|%s|%s|%s" % (self.prop, self.seed, self.shard, name)))

    def mine(self, index):
        """Deterministic partition of an enumerated space across shards."""
        return index % self.nshards == self.shard

    def thorough(self):
        return self.tier == "thorough"

    def pick(self, quick, thorough):
        return thorough if self.tier == "thorough" else quick

    def out_of_time(self):
        return self.budget_s is not None and time.time() - self.t0 > self.budget_s

    # -- measurements ----------------------------------------------------------------
    def count(self, name, n=1):
        self.counters[name] = self.counters.get(name, 0) + n

    def cls(self, name, n=1):
        self.classes[name] = self.classes.get(name, 0) + n

    def seen(self, key):
        """Record one distinct non-trivial case (by key)."""
        self.distinct.add(h64(key))

    def sample(self, obj, force=False):
        if force or len(self.samples) < self.MAX_SAMPLES:
            self.samples.append(jsonable(obj))

    def note_max(self, name, v):
        if v > self.notes.get(name, float("-inf")):
            self.notes[name] = v

    # -- verdict events --------------------------------------------------------------
    def fail(self, case, what, expected=None, observed=None, keys=(), cls=None, sig=None):
        """A refuting event.  keys = mechanism keys of known findings whose trigger
        predicate this *input* satisfies and whose failure class matches; if one of
        them is listed in KNOWN_FINDINGS.txt the event is accounted to that finding."""
        rec = {"property": self.prop, "what": what, "case": jsonable(case),
               "expected": jsonable(expected), "observed": jsonable(observed),
               "seed": self.seed, "tier": self.tier, "class": cls,
               "hashseed": os.environ.get("PYTHONHASHSEED"),
               "shard_env": {k: os.environ[k] for k in ("VP_DJANGO_TZ",) if os.environ.get(k)}}
        for k in keys:
            if k in self.known:
                e = self.known_seen.setdefault(k, {"n": 0, "witness": rec})
                e["n"] += 1
                return False
        self.n_violations += 1
        sig = h64(sig if sig is not None else what)
        self._sigs[sig] = self._sigs.get(sig, 0) + 1
        if self._sigs[sig] <= 3 and len(self.violations) < self.MAX_VIOL:
            self.violations.append(rec)
        return True

    def mark_inconclusive(self, reason):
        if reason not in self.inconclusive:
            self.inconclusive.append(reason)

    def checkpoint(self):
        """Write what has been observed so far next to the shard's result file, so that a
        shard which later gets stuck (and is killed by the parent) still reports it."""
        path = getattr(self, "out_path", None)
        if not path:
            return
        tmp = path + ".partial.tmp"
        with open(tmp, "w") as f:
            json.dump(self.result(), f)
        os.replace(tmp, path + ".partial")

    def result(self):
        return {
            "shard": self.shard, "counters": self.counters, "classes": self.classes,
            "distinct": sorted(self.distinct), "samples": self.samples,
            "violations": self.violations, "n_violations": self.n_violations,
            "known_seen": self.known_seen, "notes": self.notes,
            "inconclusive": self.inconclusive, "wall_s": time.time() - self.t0,
        }
