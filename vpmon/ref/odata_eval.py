"""Reference evaluator: OData semantics of a typed term on one row.

Values: Python None is NULL; UNSPEC means "the property does not pin this / conforming
engines differ" - rows whose truth value is UNSPEC are excluded from comparison and
counted, so the monitor can never demand more than the property states.

Three-valued logic as the property states it: a comparison with a NULL operand is NULL,
`x eq null` / `x ne null` (null literal) are the null tests, Kleene and/or/not, `in` is
NULL for a NULL needle; only TRUE rows are kept.
"""
import datetime as dt
import math


class _Unspec:
    def __repr__(self):
        return "UNSPEC"


UNSPEC = _Unspec()


class _Now:
    """The value of now(): only its ORDER relative to the (all past) stored and literal
    date-times is pinned; its components are not (the engine's clock keeps running)."""

    def __repr__(self):
        return "NOW"


NOW = _Now()


class AmbigNum(float):
    """round / floor / ceiling of an INTEGER argument: a whole number whose static type the
    backends disagree about (OData promotes to a decimal type, SQL keeps the integer).  It
    behaves as a number everywhere except where that type decides the result: div and mod."""


class Flags(set):
    """Side channel: mechanisms the evaluation touched (used as finding triggers)."""


LOCAL_ZONE = None      # set by a check whose stored values are wall-clock times of this zone


def parse_dt(s):
    s = s.replace("t", "T")
    if s.endswith(("Z", "z")) or "+" in s[10:] or "-" in s[11:]:
        if LOCAL_ZONE is None or "." in s:
            return UNSPEC   # offsets vs naive stored values: not pinned
        from zoneinfo import ZoneInfo
        try:
            aware = dt.datetime.fromisoformat(s[:-1] + "+00:00" if s.endswith(("Z", "z")) else s)
            return aware.astimezone(ZoneInfo(LOCAL_ZONE)).replace(tzinfo=None)
        except (ValueError, OverflowError):
            return UNSPEC
    fmt = "%Y-%m-%dT%H:%M:%S" if s.count(":") == 2 else "%Y-%m-%dT%H:%M"
    if "." in s:
        return UNSPEC   # fractional seconds
    return dt.datetime.strptime(s, fmt)


def parse_duration(s):
    import re
    m = re.fullmatch(r"([+-])?P(?:(\d+)D)?(?:T(?:(\d+)H)?(?:(\d+)M)?(?:(\d+(?:\.\d+)?)S)?)?", s)
    if not m:
        return UNSPEC    # years / months: calendar arithmetic is engine specific
    sign, d, h, mi, sec = m.groups()
    whole, _, frac = (sec or "0").partition(".")
    if len(frac) > 6:
        return UNSPEC    # finer than a microsecond: not representable by the ORMs' value type
    td = dt.timedelta(days=int(d or 0), hours=int(h or 0), minutes=int(mi or 0), seconds=int(whole),
                      microseconds=int((frac + "000000")[:6]))
    return -td if sign == "-" else td


def _is_num(x):
    return isinstance(x, (int, float)) and not isinstance(x, bool)


I64_MIN, I64_MAX = -2 ** 63, 2 ** 63 - 1


def _int_ok(x):
    """Int64 range: outside it engines differ (error, wrap, silent switch to REAL)."""
    return I64_MIN <= x <= I64_MAX


def _mix_ok(a, b):
    """Int64 op Double is Double: the integer is converted to the nearest double (as C and
    Python do) and the arithmetic is IEEE; comparing an integer with a double is exact in
    Python and in SQLite alike.  Nothing is left unspecified here."""
    return True


def _ascii(s):
    return all(ord(c) < 128 for c in s)


class Evaluator:
    def __init__(self, now=None, like_ascii_fold=True):
        self.now = now or dt.datetime.utcnow().replace(microsecond=0)
        self.like_ascii_fold = like_ascii_fold   # engine LIKE folds ASCII case (SQLite)
        self.flags = Flags()

    # ------------------------------------------------------------------------------------
    def truth(self, t, row):
        """-> True / False / None (NULL) / UNSPEC for a boolean-typed term."""
        v = self.ev(t, row)
        if v is UNSPEC or v is None or isinstance(v, bool):
            return v
        return UNSPEC

    def ev(self, t, row):
        k = t[0]
        if k == "id":
            return row[t[1]]
        if k == "lit":
            return self.lit(t)
        if k == "list":
            return [self.ev(x, row) for x in t[1]]
        if k == "bool":
            return self.boolop(t, row)
        if k == "un":
            x = self.ev(t[2], row)
            if x is UNSPEC:
                return UNSPEC
            if t[1] == "not":
                if x is None:
                    return None
                return (not x) if isinstance(x, bool) else UNSPEC
            if x is None:
                return None
            if _is_num(x) and isinstance(x, int) and not _int_ok(-x):
                return UNSPEC
            if isinstance(x, AmbigNum):
                return AmbigNum(-x)         # the sign does not settle the type question
            return -x if _is_num(x) else UNSPEC
        if k == "cmp":
            return self.cmp(t, row)
        if k == "bin":
            return self.bin(t, row)
        if k == "call":
            return self.call(t, row)
        return UNSPEC

    def lit(self, t):
        kind, v = t[1], t[2]
        if kind == "int":
            return int(v)
        if kind == "float":
            return float(v)
        if kind == "str":
            return v
        if kind == "bool":
            return v.lower() == "true"
        if kind == "null":
            return None
        if kind == "datetime":
            return parse_dt(v)
        if kind == "date":
            return dt.date.fromisoformat(v)
        if kind == "time":
            return dt.time.fromisoformat(v) if "." not in v else UNSPEC
        if kind == "duration":
            return parse_duration(v)
        if kind == "guid":
            return v.lower()
        return UNSPEC

    def boolop(self, t, row):
        a, b = self.truth(t[2], row), self.truth(t[3], row)
        if t[1] == "and":
            if a is False or b is False:
                # FALSE dominates - unless the other side is not pinned at all and an
                # engine could legitimately fail on it; a plain value UNSPEC is dominated
                return False
            if a is UNSPEC or b is UNSPEC:
                return UNSPEC
            if a is None or b is None:
                return None
            return True
        if a is True or b is True:
            return True
        if a is UNSPEC or b is UNSPEC:
            return UNSPEC
        if a is None or b is None:
            return None
        return False

    def cmp(self, t, row):
        op = t[1]
        if op == "in":
            x = self.ev(t[2], row)
            items = self.ev(t[3], row)
            if x is UNSPEC or any(i is UNSPEC for i in items):
                return UNSPEC
            if x is None:
                return None
            if x is NOW or any(i is NOW for i in items):
                return UNSPEC if any(i is NOW for i in items) else False
            if any(self._eq(x, i) is True for i in items):
                return True
            if any(i is None for i in items):
                return None
            return False
        # null tests: the null *literal* on the right (or, by symmetry, on the left)
        rnull = t[3] == ("lit", "null", "null")
        lnull = t[2] == ("lit", "null", "null")
        if op in ("eq", "ne") and (rnull or lnull):
            x = self.ev(t[2] if rnull else t[3], row)
            if x is UNSPEC:
                return UNSPEC
            if lnull and rnull:
                return op == "eq"
            return (x is None) if op == "eq" else (x is not None)
        a, b = self.ev(t[2], row), self.ev(t[3], row)
        if a is UNSPEC or b is UNSPEC:
            return UNSPEC
        if a is None or b is None:
            return None
        if a is NOW or b is NOW:
            other = b if a is NOW else a
            if not isinstance(other, dt.datetime):
                return UNSPEC
            # NOW is later than every date-time of the workload before 2026 and earlier than
            # those after 2100; anything in between is not pinned
            later = {"eq": False, "ne": True, "lt": False, "le": False, "gt": True, "ge": True}[op]
            earlier = {"eq": False, "ne": True, "lt": True, "le": True, "gt": False, "ge": False}[op]
            if other.year < 2026:
                now_is_later = True
            elif other.year > 2100:
                now_is_later = False
            else:
                return UNSPEC
            if a is NOW:
                return later if now_is_later else earlier
            return earlier if now_is_later else later
        if op == "eq":
            return self._eq(a, b)
        if op == "ne":
            e = self._eq(a, b)
            return UNSPEC if e is UNSPEC else (not e)
        if isinstance(a, bool) or isinstance(b, bool):
            return UNSPEC
        if _is_num(a) and _is_num(b):
            if not _mix_ok(a, b):
                return UNSPEC
        elif type(a) is not type(b):
            return UNSPEC
        if op == "lt":
            return a < b
        if op == "le":
            return a <= b
        if op == "gt":
            return a > b
        return a >= b

    def _eq(self, a, b):
        if a is None or b is None:
            return None
        if isinstance(a, bool) != isinstance(b, bool):
            return UNSPEC
        if _is_num(a) and _is_num(b):
            if not _mix_ok(a, b):
                return UNSPEC
            return a == b
        if type(a) is not type(b):
            return UNSPEC
        return a == b

    def bin(self, t, row):
        op = t[1]
        a, b = self.ev(t[2], row), self.ev(t[3], row)
        if a is UNSPEC or b is UNSPEC:
            return UNSPEC
        if a is None or b is None:
            return None
        if a is NOW or b is NOW:
            return UNSPEC
        if isinstance(a, (dt.datetime, dt.date)) and isinstance(b, dt.timedelta):
            try:
                if op == "add":
                    return a + b
                if op == "sub":
                    return a - b
            except OverflowError:
                return UNSPEC       # beyond year 1..9999: engines differ
            return UNSPEC
        if isinstance(a, str) and isinstance(b, str) and op == "add":
            self.flags.add("string-add")
            return a + b        # accepted by the SQLAlchemy backends as concatenation
        if not (_is_num(a) and _is_num(b)):
            return UNSPEC
        if not _mix_ok(a, b):
            return UNSPEC
        amb = (isinstance(a, AmbigNum) and isinstance(b, (int, AmbigNum))) or \
              (isinstance(b, AmbigNum) and isinstance(a, (int, AmbigNum)))
        if amb and op in ("div", "mod"):
            return UNSPEC
        if amb:
            r = {"add": a + b, "sub": a - b, "mul": a * b}[op]
            return AmbigNum(r) if not (math.isinf(r) or math.isnan(r)) else UNSPEC
        if op in ("add", "sub", "mul"):
            r = a + b if op == "add" else a - b if op == "sub" else a * b
            if isinstance(r, int) and not _int_ok(r):
                return UNSPEC
            if isinstance(r, float) and (math.isinf(r) or math.isnan(r)):
                return UNSPEC
            return r
        if op == "div":
            if b == 0:
                return UNSPEC
            if isinstance(a, int) and isinstance(b, int):
                if a % b == 0:
                    return a // b
                if a < 0 or b < 0:
                    return UNSPEC          # truncation vs floor
                self.flags.add("int-div-inexact")
                return a // b
            return a / b
        if op == "mod":
            if isinstance(a, int) and isinstance(b, int) and a >= 0 and b > 0:
                return a % b
            return UNSPEC
        return UNSPEC

    # ------------------------------------------------------------------------------------
    def call(self, t, row):
        name = t[1]
        args = [self.ev(a, row) for a in t[2]]
        if any(a is UNSPEC or a is NOW for a in args):
            return UNSPEC
        if name in ("contains", "startswith", "endswith"):
            s, p = args
            if s is None or p is None:
                return None
            if not isinstance(s, str) or not isinstance(p, str):
                return UNSPEC
            if t[2][1][0] != "lit" and any(c in p for c in "%_"):
                self.flags.add("like-nonliteral-pattern-wildcard")
            if t[2][1][0] == "lit" and any(c in p for c in "%_"):
                self.flags.add("like-literal-pattern-wildcard")
            f = {"contains": lambda x, y: y in x, "startswith": lambda x, y: x.startswith(y),
                 "endswith": lambda x, y: x.endswith(y)}[name]
            r = f(s, p)
            if self.like_ascii_fold:
                if not (_ascii(s) and _ascii(p)) and f(s.lower(), p.lower()) != r:
                    return UNSPEC
                if f(s.lower(), p.lower()) != r:
                    return UNSPEC
            return r
        if name == "length":
            s = args[0]
            if s is None:
                return None
            return len(s) if isinstance(s, (str, list)) else UNSPEC
        if name == "indexof":
            s, p = args
            if s is None or p is None:
                return None
            return s.find(p)
        if name == "substring":
            s, i = args[0], args[1]
            n = args[2] if len(args) > 2 else "rest"
            if s is None or i is None or n is None:
                return None
            if not isinstance(i, int) or not (0 <= i <= len(s)):
                return UNSPEC
            if n == "rest":
                return s[i:]
            if not isinstance(n, int) or n < 0:
                return UNSPEC
            return s[i:i + n]
        if name in ("tolower", "toupper"):
            s = args[0]
            if s is None:
                return None
            if not _ascii(s):
                return UNSPEC
            return s.lower() if name == "tolower" else s.upper()
        if name == "trim":
            s = args[0]
            if s is None:
                return None
            if s.strip() != s.strip(" "):
                return UNSPEC
            return s.strip(" ")
        if name == "concat":
            a, b = args
            if a is None or b is None:
                return UNSPEC
            if isinstance(a, str) and isinstance(b, str):
                return a + b
            return UNSPEC
        if name in ("year", "month", "day", "hour", "minute", "second"):
            d = args[0]
            if d is None:
                return None
            if name in ("year", "month", "day") and isinstance(d, (dt.date, dt.datetime)):
                return getattr(d, name)
            if isinstance(d, (dt.datetime, dt.time)):
                return getattr(d, name)
            return UNSPEC
        if name == "date":
            d = args[0]
            if d is None:
                return None
            return d.date() if isinstance(d, dt.datetime) else UNSPEC
        if name == "time":
            d = args[0]
            if d is None:
                return None
            return d.time() if isinstance(d, dt.datetime) else UNSPEC
        if name == "now":
            self.flags.add("now")
            return NOW
        if name in ("round", "floor", "ceiling"):
            x = args[0]
            if x is None:
                return None
            if not _is_num(x) or abs(x) > 2 ** 52:
                return UNSPEC
            if isinstance(x, (int, AmbigNum)):
                if name == "round" and x < 0:
                    self.flags.add("round-negative")
                return AmbigNum(x)          # already whole; only its type is in question
            if name == "floor":
                return float(math.floor(x))
            if name == "ceiling":
                return float(math.ceil(x))
            if x < 0:
                self.flags.add("round-negative")
            # half away from zero
            return float(math.floor(abs(x) + 0.5)) * (1 if x >= 0 else -1)
        return UNSPEC
