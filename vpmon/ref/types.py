"""Reference static typing of terms (OData 4.01 URL conventions 5.1.1), independent of the
generator: literal kind for literals, Edm.Boolean for comparisons / logical operators, the
specified return type per built-in function, argument-derived for concat and substring."""
from .functable import RETURNS

CLASS_OF = {"int": "Integer", "float": "Float", "str": "String", "bool": "Boolean",
            "datetime": "DateTime", "date": "Date", "time": "Time", "guid": "GUID",
            "duration": "Duration", "geo": "Geography", "null": "Null", "list": "List"}


def static_type(t, schema):
    """-> type name, ("list", T), or None when the specification does not pin one here."""
    k = t[0]
    if k == "lit":
        return t[1]
    if k == "id":
        return schema.get(t[1]) if not t[2] else None
    if k == "list":
        inner = static_type(t[1][0], schema) if t[1] else None
        return ("list", inner)
    if k in ("cmp", "bool"):
        return "bool"
    if k == "un":
        if t[1] == "not":
            return "bool"
        return static_type(t[2], schema)
    if k == "bin":
        l, r = static_type(t[2], schema), static_type(t[3], schema)
        return arith_type(t[1], l, r)
    if k == "call":
        ret = RETURNS.get(t[1])
        if ret == "arg":
            first = static_type(t[2][0], schema) if t[2] else None
            if first is None and t[1] == "concat" and len(t[2]) == 2:
                # both operands of concat have ONE type: the second pins it when the first is unknown
                return static_type(t[2][1], schema)
            return first
        return ret
    if k == "lam":
        return "bool"
    return None


def arith_type(op, l, r):
    """Result type of an arithmetic operator (OData 4.01 part 2, 5.1.1.2); None = not pinned."""
    num = ("int", "float")
    if l in num and r in num:
        return "float" if "float" in (l, r) else "int"
    if op == "add":
        if l in ("datetime", "date") and r == "duration":
            return l
        if l == "duration" and r in ("datetime", "date"):
            return r
        if l == "duration" and r == "duration":
            return "duration"
    if op == "sub":
        if l in ("datetime", "date") and r == "duration":
            return l
        if l == "duration" and r == "duration":
            return "duration"
        if l == r and l in ("datetime", "date"):
            return "duration"       # the difference of two points in time is a duration
    if op in ("mul", "div") and l == "duration" and r in num:
        return "duration"
    if op == "mul" and l in num and r == "duration":
        return "duration"
    return None


def class_name(typ):
    if typ is None:
        return None
    if isinstance(typ, tuple):
        return "List"
    return CLASS_OF[typ]


def welltyped(t, schema_of):
    """True when t is well-typed w.r.t. gen.scalar.FUNCS (used to keep shrunk witnesses
    inside the typed fragment).  schema_of(name) -> type or None."""
    from ..gen.scalar import FUNCS, LIST_FUNCS

    def compat(want, got):
        if want == got:
            return True
        if want in ("int", "float") and got in ("int", "float"):
            return True
        if got == "null":
            return True
        return False

    def ty(n):
        k = n[0]
        if k == "lit":
            return n[1]
        if k == "id":
            return schema_of(n[1])
        if k == "list":
            inner = [ty(x) for x in n[1]]
            if any(i is False for i in inner):
                return False
            return ("list", inner[0])
        if k == "bool":
            return "bool" if ty(n[2]) == "bool" and ty(n[3]) == "bool" else False
        if k == "un":
            x = ty(n[2])
            if n[1] == "not":
                return "bool" if x == "bool" else False
            return x if x in ("int", "float") else False
        if k == "cmp":
            l, r = ty(n[2]), ty(n[3])
            if l is False or r is False or l is None or r is None:
                return False
            if n[1] == "in":
                return "bool" if isinstance(r, tuple) and compat(r[1], l) else False
            if isinstance(l, tuple) or isinstance(r, tuple):
                return False
            if l == "null":
                return False
            return "bool" if compat(l, r) else False
        if k == "bin":
            l, r = ty(n[2]), ty(n[3])
            if l in ("int", "float") and r in ("int", "float"):
                return "float" if "float" in (l, r) else "int"
            if l in ("datetime", "date") and r == "duration" and n[1] in ("add", "sub"):
                return l
            if l == "str" and r == "str" and n[1] == "add":
                return "str"     # string `add`: only generated for backends that accept it
            return False
        if k == "call":
            args = [ty(a) for a in n[2]]
            if any(a is False or a is None for a in args):
                return False
            for sigs in (FUNCS.get(n[1], []), LIST_FUNCS.get(n[1], [])):
                for want, ret in sigs:
                    if len(want) == len(args) and all(
                            (w == a) or (not isinstance(w, tuple) and not isinstance(a, tuple)
                                         and compat(w, a))
                            or (isinstance(w, tuple) and isinstance(a, tuple))
                            for w, a in zip(want, args)):
                        return ret
            return False
        return False
    return ty(t) not in (False, None)
