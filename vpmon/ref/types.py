"""Reference static typing of terms (OData 4.01 URL conventions 5.1.1), independent of the
generator: literal kind for literals, Edm.Boolean for comparisons / logical operators, the
specified return type per built-in function, argument-derived for concat and substring."""
from .functable import RETURNS

CLASS_OF = {"int": "Integer", "float": "Float", "str": "String", "bool": "Boolean",
            "datetime": "DateTime", "date": "Date", "time": "Time", "guid": "GUID",
            "duration": "Duration", "geo": "Geography", "null": "Null", "list": "List"}


def static_type(t, schema):
    """-> type name, ("list", T), or None when the specification does not pin one here."""
    k = t[0]
    if k == "lit":
        return t[1]
    if k == "id":
        return schema.get(t[1]) if not t[2] else None
    if k == "list":
        inner = static_type(t[1][0], schema) if t[1] else None
        return ("list", inner)
    if k in ("cmp", "bool"):
        return "bool"
    if k == "un":
        if t[1] == "not":
            return "bool"
        return static_type(t[2], schema)
    if k == "bin":
        l, r = static_type(t[2], schema), static_type(t[3], schema)
        if l == "float" or r == "float":
            return "float"
        if l == "int" and r == "int":
            return "int"
        return None
    if k == "call":
        ret = RETURNS.get(t[1])
        if ret == "arg":
            return static_type(t[2][0], schema)
        return ret
    if k == "lam":
        return "bool"
    return None


def class_name(typ):
    if typ is None:
        return None
    if isinstance(typ, tuple):
        return "List"
    return CLASS_OF[typ]
