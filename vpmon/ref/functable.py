"""OData v4.01 built-in functions the library lists, with their arity ranges, written
from the specification (URL conventions 5.1.1.5-5.1.1.13) - NOT imported from the library.
Return types (used by C18) follow the same sections."""

ARITY = {
    # string / collection functions
    "concat": (2, 2), "contains": (2, 2), "endswith": (2, 2), "indexof": (2, 2),
    "length": (1, 1), "startswith": (2, 2), "substring": (2, 3), "matchesPattern": (2, 2),
    "tolower": (1, 1), "toupper": (1, 1), "trim": (1, 1),
    "hassubset": (2, 2), "hassubsequence": (2, 2),
    # date and time functions
    "year": (1, 1), "month": (1, 1), "day": (1, 1), "hour": (1, 1), "minute": (1, 1),
    "second": (1, 1), "fractionalseconds": (1, 1), "totalseconds": (1, 1), "date": (1, 1),
    "time": (1, 1), "totaloffsetminutes": (1, 1), "mindatetime": (0, 0),
    "maxdatetime": (0, 0), "now": (0, 0),
    # arithmetic functions
    "round": (1, 1), "floor": (1, 1), "ceiling": (1, 1),
    # geo functions
    "geo.distance": (2, 2), "geo.length": (1, 1), "geo.intersects": (2, 2),
}

# specified return type per function; "arg" = derived from the arguments
RETURNS = {
    "contains": "bool", "endswith": "bool", "startswith": "bool", "hassubset": "bool",
    "hassubsequence": "bool", "geo.intersects": "bool", "matchesPattern": "bool",
    "indexof": "int", "length": "int", "year": "int", "month": "int", "day": "int",
    "hour": "int", "minute": "int", "second": "int", "totaloffsetminutes": "int",
    "fractionalseconds": "float", "totalseconds": "float", "geo.distance": "float",
    "geo.length": "float",
    # round/floor/ceiling return the argument's numeric type (Double or Decimal): float here
    "round": "float", "floor": "float", "ceiling": "float",
    "tolower": "str", "toupper": "str", "trim": "str",
    "date": "date", "time": "time",
    "mindatetime": "datetime", "maxdatetime": "datetime", "now": "datetime",
    "concat": "arg", "substring": "arg",
}


def expected_call(fullname, nargs):
    """-> ("ok",) | ("unknown", name) | ("count", name, lo, hi, given)"""
    parts = fullname.split(".")
    ns = tuple(parts[:-1])
    if ns not in ((), ("geo",)):
        return ("ok",)
    if fullname not in ARITY:
        return ("unknown", fullname)
    lo, hi = ARITY[fullname]
    if lo <= nargs <= hi:
        return ("ok",)
    return ("count", fullname, lo, hi, nargs)
