"""Independent precedence parser for SQL boolean/value expressions, with token spans.

Precedence (loosest first), the conservative reading shared by standard SQL / PostgreSQL /
SQLite for well-typed expressions:
   OR < AND < NOT < comparison (= != <> < <= > >= IS [NOT] | [NOT] IN | [NOT] LIKE)
      < || < + - < * / % < unary - < primary
Comparison operators do not chain (a = b = c is rejected as malformed: standard SQL has
no such form and engines disagree on it).

Node = (kind, label, children, i, j): token span [i, j).
  kinds: or and not cmp concat add mul neg func special lit ident row paren kw
"""
from .sql_lex import lex, SqlLexError


class SqlParseError(Exception):
    pass


CMP_OPS = {"=", "!=", "<>", "<", "<=", ">", ">="}
TYPED_LIT = {"DATE", "TIMESTAMP", "TIME"}
INTERVAL_UNITS = {"YEAR", "MONTH", "DAY", "HOUR", "MINUTE", "SECOND"}
KEYWORD_VALUES = {"NULL", "TRUE", "FALSE", "CURRENT_TIMESTAMP", "CURRENT_DATE", "CURRENT_TIME"}
RESERVED = {"AND", "OR", "NOT", "IS", "IN", "LIKE", "FROM", "FOR", "AS", "WHEN", "THEN", "ELSE",
            "END", "CASE", "BETWEEN", "ESCAPE"}


class P:
    def __init__(self, toks):
        self.t = toks
        self.i = 0

    def peek(self, k=0):
        return self.t[self.i + k] if self.i + k < len(self.t) else None

    def word(self, k=0):
        tk = self.peek(k)
        return tk[1].upper() if tk and tk[0] == "WORD" else None

    def is_(self, typ, text=None, k=0):
        tk = self.peek(k)
        return tk is not None and tk[0] == typ and (text is None or tk[1] == text)

    def eat(self, typ, text=None):
        tk = self.peek()
        if tk is None or tk[0] != typ or (text is not None and tk[1].upper() != text):
            raise SqlParseError("expected %s %s at token %d, found %r" % (typ, text, self.i, tk))
        self.i += 1
        return tk

    def eat_word(self, w):
        if self.word() != w:
            raise SqlParseError("expected %s at token %d, found %r" % (w, self.i, self.peek()))
        self.i += 1

    # ---- grammar ------------------------------------------------------------------------
    def expr(self):
        return self.or_()

    def or_(self):
        s = self.i
        n = self.and_()
        while self.word() == "OR":
            self.i += 1
            r = self.and_()
            n = ("or", "OR", [n, r], s, self.i)
        return n

    def and_(self):
        s = self.i
        n = self.not_()
        while self.word() == "AND":
            self.i += 1
            r = self.not_()
            n = ("and", "AND", [n, r], s, self.i)
        return n

    def not_(self):
        s = self.i
        if self.word() == "NOT":
            self.i += 1
            x = self.not_()
            return ("not", "NOT", [x], s, self.i)
        return self.cmp()

    def cmp(self):
        s = self.i
        l = self.concat()
        tk = self.peek()
        if tk is None:
            return l
        node = None
        if tk[0] == "OP" and tk[1] in CMP_OPS:
            self.i += 1
            r = self.concat()
            node = ("cmp", "!=" if tk[1] == "<>" else tk[1], [l, r], s, self.i)
        elif self.word() == "IS":
            self.i += 1
            label = "IS"
            if self.word() == "NOT":
                self.i += 1
                label = "IS NOT"
            r = self.concat()
            node = ("cmp", label, [l, r], s, self.i)
        elif self.word() in ("IN", "LIKE") or (self.word() == "NOT" and self.word(1) in ("IN", "LIKE")):
            label = ""
            if self.word() == "NOT":
                self.i += 1
                label = "NOT "
            w = self.word()
            self.i += 1
            label += w
            if w == "IN":
                r = self.row_or_paren(force_row=True)
            else:
                r = self.concat()
                if self.word() == "ESCAPE":
                    self.i += 1
                    self.eat("STR")
            node = ("cmp", label, [l, r], s, self.i)
        if node is None:
            return l
        tk = self.peek()
        if tk is not None and ((tk[0] == "OP" and tk[1] in CMP_OPS) or self.word() in ("IS", "IN", "LIKE")):
            raise SqlParseError("chained comparison without parentheses at token %d" % self.i)
        return node

    def concat(self):
        s = self.i
        n = self.add()
        while self.is_("OP", "||"):
            self.i += 1
            r = self.add()
            n = ("concat", "||", [n, r], s, self.i)
        return n

    def add(self):
        s = self.i
        n = self.mul()
        while self.is_("OP", "+") or self.is_("OP", "-"):
            op = self.peek()[1]
            self.i += 1
            r = self.mul()
            n = ("add", op, [n, r], s, self.i)
        return n

    def mul(self):
        s = self.i
        n = self.unary()
        while self.is_("OP", "*") or self.is_("OP", "/") or self.is_("OP", "%"):
            op = self.peek()[1]
            self.i += 1
            r = self.unary()
            n = ("mul", op, [n, r], s, self.i)
        return n

    def unary(self):
        s = self.i
        if self.is_("OP", "-") or self.is_("OP", "+"):
            op = self.peek()[1]
            self.i += 1
            x = self.unary()
            return ("neg", op, [x], s, self.i)
        return self.primary()

    def row_or_paren(self, force_row=False):
        s = self.i
        self.eat("PUNCT", "(")
        if self.is_("PUNCT", ")"):
            raise SqlParseError("empty parentheses at token %d" % self.i)
        items = [self.expr()]
        while self.is_("PUNCT", ","):
            self.i += 1
            items.append(self.expr())
        self.eat("PUNCT", ")")
        if len(items) > 1 or force_row:
            return ("row", None, items, s, self.i)
        return ("paren", None, items, s, self.i)

    def primary(self):
        s = self.i
        tk = self.peek()
        if tk is None:
            raise SqlParseError("unexpected end of expression (empty operand)")
        typ, text = tk[0], tk[1]
        if typ == "NUM":
            self.i += 1
            return ("lit", "NUM", [], s, self.i)
        if typ == "STR":
            self.i += 1
            return ("lit", "STR", [], s, self.i)
        if typ == "ID":
            self.i += 1
            if self.is_("PUNCT", ".") and self.is_("ID", None, 1):
                self.i += 2
            return ("ident", None, [], s, self.i)
        if typ == "PUNCT" and text == "(":
            return self.row_or_paren()
        if typ == "WORD":
            w = text.upper()
            if w in RESERVED and w != "CASE":
                raise SqlParseError("keyword %s where an operand was expected (token %d)" % (w, s))
            if w in KEYWORD_VALUES:
                self.i += 1
                return ("lit", w, [], s, self.i)
            if w in TYPED_LIT and self.is_("STR", None, 1):
                self.i += 2
                return ("lit", w, [], s, self.i)
            if w == "INTERVAL" and self.is_("STR", None, 1):
                self.i += 2
                if self.word() in INTERVAL_UNITS:
                    self.i += 1
                else:
                    raise SqlParseError("INTERVAL without unit at token %d" % self.i)
                return ("lit", "INTERVAL", [], s, self.i)
            if w == "CASE":
                return self.case()
            if self.is_("PUNCT", "(", 1):
                return self.call(w)
            if w == "NONE":
                raise SqlParseError("placeholder text None at token %d" % s)
            raise SqlParseError("bare word %r at token %d" % (text, s))
        raise SqlParseError("unexpected token %r at %d" % (tk, s))

    def call(self, name):
        s = self.i
        self.i += 1
        self.eat("PUNCT", "(")
        args = []
        if name == "EXTRACT":
            unit = self.eat("WORD")
            self.eat_word("FROM")
            args = [self.expr()]
            label = "EXTRACT " + unit[1].upper()
            kind = "special"
        elif name == "CAST":
            args = [self.expr()]
            self.eat_word("AS")
            ty = self.eat("WORD")
            label = "CAST " + ty[1].upper()
            kind = "special"
        elif name == "POSITION":
            a = self.concat()
            self.eat_word("IN")
            b = self.concat()
            args = [a, b]
            label, kind = "POSITION", "special"
        elif name == "SUBSTRING":
            a = self.expr()
            if self.word() == "FROM":
                self.i += 1
                args = [a, self.expr()]
                if self.word() == "FOR":
                    self.i += 1
                    args.append(self.expr())
                label, kind = "SUBSTRING", "special"
            else:
                args = [a]
                while self.is_("PUNCT", ","):
                    self.i += 1
                    args.append(self.expr())
                label, kind = name, "func"
        else:
            if not self.is_("PUNCT", ")"):
                args.append(self.expr())
                while self.is_("PUNCT", ","):
                    self.i += 1
                    args.append(self.expr())
            label, kind = name, "func"
        self.eat("PUNCT", ")")
        return (kind, label, args, s, self.i)

    def case(self):
        s = self.i
        self.eat_word("CASE")
        kids = []
        if self.word() != "WHEN":
            kids.append(self.expr())
        if self.word() != "WHEN":
            raise SqlParseError("CASE without WHEN at token %d" % self.i)
        while self.word() == "WHEN":
            self.i += 1
            kids.append(self.expr())
            self.eat_word("THEN")
            kids.append(self.expr())
        if self.word() == "ELSE":
            self.i += 1
            kids.append(self.expr())
        self.eat_word("END")
        return ("special", "CASE", kids, s, self.i)


def parse(sql):
    """-> (tree, tokens).  Raises SqlLexError / SqlParseError."""
    toks = lex(sql)
    if any(t[0] == "COMMENT" for t in toks):
        raise SqlParseError("comment in generated SQL")
    if any(t[0] == "PUNCT" and t[1] == ";" for t in toks):
        raise SqlParseError("statement separator in generated SQL")
    depth = 0
    for t in toks:
        if t[0] == "PUNCT" and t[1] == "(":
            depth += 1
        elif t[0] == "PUNCT" and t[1] == ")":
            depth -= 1
            if depth < 0:
                raise SqlParseError("unbalanced parentheses")
    if depth != 0:
        raise SqlParseError("unbalanced parentheses")
    p = P(toks)
    tree = p.expr()
    if p.i != len(toks):
        raise SqlParseError("trailing tokens from %d: %r" % (p.i, toks[p.i:p.i + 3]))
    return tree, toks


def subtrees(tree):
    yield tree
    for c in tree[2]:
        yield from subtrees(c)


def strip_parens(node):
    while node[0] == "paren":
        node = node[2][0]
    return node
