r"""Independent SQL lexer (SQL-92 lexical rules shared by standard SQL, SQLite and Athena).

Token = (type, text, start, end) with type in:
  STR   single-quoted, quote doubled     ID   double-quoted, quote doubled     NUM  123 1.5 1e3
  WORD  keywords / function names / bare identifiers (upper-cased in .norm)
  OP    = != <> < <= > >= + - * / % ||            PUNCT ( ) , . ; [ ]
  COMMENT  -- ... / /* ... */
Errors raise SqlLexError (unterminated literal / identifier / comment, stray character).
"""
import re


class SqlLexError(Exception):
    pass


_WS = re.compile(r"\s+")
_NUM = re.compile(r"\d+(?:\.\d+)?(?:[eE][+-]?\d+)?|\.\d+(?:[eE][+-]?\d+)?", re.ASCII)   # SQL digits are ASCII
_WORD = re.compile(r"[A-Za-z_][A-Za-z_0-9$]*")
_OPS = ["||", "!=", "<>", "<=", ">=", "=", "<", ">", "+", "-", "*", "/", "%"]


def lex(sql):
    toks = []
    i, n = 0, len(sql)
    while i < n:
        m = _WS.match(sql, i)
        if m:
            i = m.end()
            continue
        c = sql[i]
        if c == "'":
            j = i + 1
            while True:
                k = sql.find("'", j)
                if k < 0:
                    raise SqlLexError("unterminated string literal at %d" % i)
                if sql[k:k + 2] == "''":
                    j = k + 2
                    continue
                break
            toks.append(("STR", sql[i:k + 1], i, k + 1))
            i = k + 1
            continue
        if c == '"':
            j = i + 1
            while True:
                k = sql.find('"', j)
                if k < 0:
                    raise SqlLexError("unterminated quoted identifier at %d" % i)
                if sql[k:k + 2] == '""':
                    j = k + 2
                    continue
                break
            toks.append(("ID", sql[i:k + 1], i, k + 1))
            i = k + 1
            continue
        if sql.startswith("--", i):
            k = sql.find("\n", i)
            k = n if k < 0 else k
            toks.append(("COMMENT", sql[i:k], i, k))
            i = k
            continue
        if sql.startswith("/*", i):
            k = sql.find("*/", i + 2)
            if k < 0:
                raise SqlLexError("unterminated comment at %d" % i)
            toks.append(("COMMENT", sql[i:k + 2], i, k + 2))
            i = k + 2
            continue
        m = _NUM.match(sql, i)
        if m:
            toks.append(("NUM", m.group(), i, m.end()))
            i = m.end()
            continue
        m = _WORD.match(sql, i)
        if m:
            toks.append(("WORD", m.group(), i, m.end()))
            i = m.end()
            continue
        for op in _OPS:
            if sql.startswith(op, i):
                toks.append(("OP", op, i, i + len(op)))
                i += len(op)
                break
        else:
            if c in "(),.;[]":      # [ ] : array constructors / subscripts (Trino, PostgreSQL)
                toks.append(("PUNCT", c, i, i + 1))
                i += 1
            else:
                raise SqlLexError("stray character %r at %d" % (c, i))
    return toks


def str_value(tok_text):
    """Content of a STR token."""
    return tok_text[1:-1].replace("''", "'")


def id_value(tok_text):
    return tok_text[1:-1].replace('""', '"')


def skeleton(toks):
    """Token sequence with literal contents and identifier spellings abstracted away."""
    out = []
    for t in toks:
        if t[0] == "STR":
            out.append("STR")
        elif t[0] == "ID":
            out.append("ID")
        elif t[0] == "WORD":
            out.append("W:" + t[1].upper())
        else:
            out.append(t[0] + ":" + t[1])
    return out
