"""Library AST -> neutral term.  Structural: it looks at class names and dataclass
fields only, so refactored visitors / renamed helper methods do not matter."""
import dataclasses

_BIN = {"Add": "add", "Sub": "sub", "Mult": "mul", "Div": "div", "Mod": "mod"}
_CMP = {"Eq": "eq", "NotEq": "ne", "Lt": "lt", "LtE": "le", "Gt": "gt", "GtE": "ge",
        "In": "in"}
_BOOL = {"And": "and", "Or": "or"}
_UN = {"Not": "not", "USub": "neg"}
_LIT = {"Integer": "int", "Float": "float", "Boolean": "bool", "String": "str",
        "GUID": "guid", "Date": "date", "Time": "time", "DateTime": "datetime",
        "Duration": "duration", "Geography": "geo"}
_QUANT = {"Any": "any", "All": "all"}


class DecodeError(Exception):
    pass


def decode(n):
    cn = type(n).__name__
    if not dataclasses.is_dataclass(n):
        raise DecodeError("not an AST node: %r" % (n,))
    if cn == "Identifier":
        return ("id", n.name, tuple(n.namespace))
    if cn == "Attribute":
        if not isinstance(n.attr, str):
            raise DecodeError("Attribute.attr is not a str: %r" % (n.attr,))
        return ("attr", decode(n.owner), n.attr)
    if cn == "Null":
        return ("lit", "null", "null")
    if cn in _LIT:
        if not isinstance(n.val, str):
            raise DecodeError("literal val is not a str: %r" % (n.val,))
        return ("lit", _LIT[cn], n.val)
    if cn == "List":
        if not isinstance(n.val, (list, tuple)):
            raise DecodeError("List.val is not a sequence")
        return ("list", tuple(decode(x) for x in n.val))
    if cn == "BinOp":
        return ("bin", _BIN[type(n.op).__name__], decode(n.left), decode(n.right))
    if cn == "Compare":
        return ("cmp", _CMP[type(n.comparator).__name__], decode(n.left), decode(n.right))
    if cn == "BoolOp":
        return ("bool", _BOOL[type(n.op).__name__], decode(n.left), decode(n.right))
    if cn == "UnaryOp":
        return ("un", _UN[type(n.op).__name__], decode(n.operand))
    if cn == "Call":
        f = n.func
        if type(f).__name__ != "Identifier":
            raise DecodeError("Call.func is not an Identifier")
        if not isinstance(n.args, (list, tuple)):
            raise DecodeError("Call.args is not a sequence")
        return ("call", ".".join(tuple(f.namespace) + (f.name,)),
                tuple(decode(a) for a in n.args))
    if cn == "NamedParam":
        return ("np", decode(n.name), decode(n.param))
    if cn == "CollectionLambda":
        lam = n.lambda_
        if lam is None:
            return ("lam", decode(n.owner), _QUANT[type(n.operator).__name__], None, None)
        ident = lam.identifier
        if type(ident).__name__ != "Identifier":
            raise DecodeError("lambda variable is not an identifier")
        # a namespaced variable (ns.x: ...) is written dotted, exactly as in the source
        return ("lam", decode(n.owner), _QUANT[type(n.operator).__name__],
                ".".join(tuple(ident.namespace) + (ident.name,)), decode(lam.expression))
    raise DecodeError("unknown node class %s" % cn)


def norm_for_parse(t):
    """Normalise a generator term to what a faithful parser must return for its text:
    durations are upper-cased by the lexer (documented), bool/null keep source case."""
    from ..gen.terms import map_term

    def f(x):
        if x[0] == "lit" and x[1] == "duration":
            return ("lit", "duration", x[2].upper())
        return x
    return map_term(f, t)


def fingerprint(node):
    """Iterative structural fingerprint of a library AST (safe for very deep trees)."""
    import hashlib
    h = hashlib.blake2b(digest_size=16)
    stack = [node]
    n = 0
    while stack:
        x = stack.pop()
        n += 1
        if dataclasses.is_dataclass(x) and not isinstance(x, type):
            h.update(b"<" + type(x).__name__.encode())
            fs = dataclasses.fields(x)
            stack.append(">")
            for f in reversed(fs):
                stack.append(getattr(x, f.name))
        elif isinstance(x, (list, tuple)):
            h.update(b"[%d" % len(x))
            stack.extend(reversed(x))
        else:
            h.update(repr(x).encode("utf-8", "surrogatepass") + b";")
    return h.hexdigest(), n
