"""Reference alias substitution (C14) and re-rooting (C17) on neutral terms."""
from ..gen import terms as T


def path_root(t):
    while t[0] == "attr":
        t = t[1]
    return t


def _is_bound_root(t, bound):
    r = path_root(t)
    # a variable is the WHOLE identifier (namespace included): ns.x is not x
    return r[0] == "id" and ".".join(tuple(r[2]) + (r[1],)) in bound


def subst_ref(t, mapping, bound=frozenset()):
    """Replace field references matching a key of `mapping` (term -> term).

    Field references are: a bare identifier, a maximal path, the owner prefix of a longer
    path, the owner of a collection lambda.  Never touched: function names, named-parameter
    names, lambda binders and paths/identifiers rooted at a bound lambda variable,
    operators, literals, list structure."""
    k = t[0]
    if k == "id":
        if _is_bound_root(t, bound):
            return t
        return mapping.get(t, t)
    if k == "attr":
        if _is_bound_root(t, bound):
            return t
        if t in mapping:
            return mapping[t]
        return ("attr", subst_ref(t[1], mapping, bound), t[2])
    if k == "lit":
        return t
    if k == "list":
        return ("list", tuple(subst_ref(x, mapping, bound) for x in t[1]))
    if k in ("bin", "cmp", "bool"):
        return (k, t[1], subst_ref(t[2], mapping, bound), subst_ref(t[3], mapping, bound))
    if k == "un":
        return ("un", t[1], subst_ref(t[2], mapping, bound))
    if k == "call":
        return ("call", t[1], tuple(subst_ref(x, mapping, bound) for x in t[2]))
    if k == "np":
        return ("np", t[1], subst_ref(t[2], mapping, bound))
    if k == "lam":
        owner = subst_ref(t[1], mapping, bound)
        if t[3] is None:
            return ("lam", owner, t[2], None, None)
        return ("lam", owner, t[2], t[3], subst_ref(t[4], mapping, bound | {t[3]}))
    raise ValueError(t)


def reroot_ref(t, var):
    """Every path whose root is the un-namespaced identifier `var` loses its first segment."""
    k = t[0]
    if k in ("id", "lit"):
        return t
    if k == "attr":
        owner = t[1]
        if owner == ("id", var, ()):
            return ("id", t[2], ())
        if owner[0] == "attr":
            return ("attr", reroot_ref(owner, var), t[2])
        return t
    if k == "list":
        return ("list", tuple(reroot_ref(x, var) for x in t[1]))
    if k in ("bin", "cmp", "bool"):
        return (k, t[1], reroot_ref(t[2], var), reroot_ref(t[3], var))
    if k == "un":
        return ("un", t[1], reroot_ref(t[2], var))
    if k == "call":
        return ("call", t[1], tuple(reroot_ref(x, var) for x in t[2]))
    if k == "np":
        return ("np", t[1], reroot_ref(t[2], var))
    if k == "lam":
        owner = reroot_ref(t[1], var)
        body = None if t[4] is None else reroot_ref(t[4], var)
        return ("lam", owner, t[2], t[3], body)
    raise ValueError(t)


def free_field_refs(t, bound=frozenset(), out=None):
    """Maximal field references (identifiers / paths) that are not lambda-bound."""
    if out is None:
        out = []
    k = t[0]
    if k in ("id", "attr"):
        if not _is_bound_root(t, bound):
            out.append(t)
        return out
    if k == "lit":
        return out
    if k == "lam":
        free_field_refs(t[1], bound, out)
        if t[4] is not None:
            free_field_refs(t[4], bound | {t[3]}, out)
        return out
    if k == "np":
        free_field_refs(t[2], bound, out)
        return out
    for c in T.children(t):
        free_field_refs(c, bound, out)
    return out
