"""Value of INTERVAL expressions in generated SQL (months, seconds), read from the
independent parse tree, and the value a duration literal denotes."""
import re
from fractions import Fraction

from .sql_lex import str_value

_UNIT = {"YEAR": (12, 0), "MONTH": (1, 0), "DAY": (0, 86400), "HOUR": (0, 3600),
         "MINUTE": (0, 60), "SECOND": (0, 1)}
_DUR = re.compile(r"([+-])?P(?:(\d+)Y)?(?:(\d+)M)?(?:(\d+)D)?(?:T(?:(\d+)H)?(?:(\d+)M)?(?:(\d+(?:\.\d+)?)S)?)?$", re.ASCII)


def duration_value(text):
    """(months, seconds) denoted by an OData duration body such as -P1DT2H."""
    m = _DUR.match(text.upper())
    if not m:
        return None
    sign, y, mo, d, h, mi, sec = m.groups()
    months = Fraction(int(y or 0) * 12 + int(mo or 0))
    seconds = (Fraction(int(d or 0)) * 86400 + Fraction(int(h or 0)) * 3600
               + Fraction(int(mi or 0)) * 60 + Fraction(sec or "0"))
    if sign == "-":
        months, seconds = -months, -seconds
    return (months, seconds)


def interval_value(node, toks):
    """(months, seconds) of a parse subtree made of INTERVAL literals, + - and unary minus;
    None when the subtree contains anything else."""
    kind = node[0]
    if kind == "paren":
        return interval_value(node[2][0], toks)
    if kind == "lit" and node[1] == "INTERVAL":
        body = str_value(toks[node[3] + 1][1])
        if not re.fullmatch(r"[+-]?[0-9]+(?:\.[0-9]+)?", body):
            return ("malformed", body)      # '1e-06', '', ' 5': no engine reads these as a number of units
        n = Fraction(body)
        mm, ss = _UNIT[toks[node[3] + 2][1].upper()]
        return (n * mm, n * ss)
    if kind == "neg":
        v = interval_value(node[2][0], toks)
        if v is None or v[0] == "malformed":
            return v
        return (-v[0], -v[1]) if node[1] == "-" else v
    if kind == "add":
        a, b = interval_value(node[2][0], toks), interval_value(node[2][1], toks)
        if a is None or b is None:
            return None
        for x in (a, b):
            if x[0] == "malformed":
                return x
        if node[1] == "+":
            return (a[0] + b[0], a[1] + b[1])
        return (a[0] - b[0], a[1] - b[1])
    return None


def maximal_interval_subtrees(tree, toks):
    """Maximal subtrees that are pure interval expressions, with their values."""
    v = interval_value(tree, toks)
    if v is not None:
        return [(tree, v)]
    out = []
    for c in tree[2]:
        out.extend(maximal_interval_subtrees(c, toks))
    return out
