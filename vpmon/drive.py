"""Client-boundary drivers: call the real library, return a plain outcome value."""
from odata_query import exceptions
from odata_query.grammar import ODataLexer, ODataParser

from .mon.contracts import MonitorViolation
from .ref.decode import decode, DecodeError


def fresh():
    return ODataLexer(), ODataParser()


def parse_ast(text, lexer=None, parser=None):
    """-> ("ok", ast) | ("lib", excname, exc) | ("foreign", excname, exc) | ("monitor", ..)"""
    if lexer is None:
        lexer = ODataLexer()
    if parser is None:
        parser = ODataParser()
    try:
        node = parser.parse(lexer.tokenize(text))
    except exceptions.ODataException as e:
        return ("lib", type(e).__name__, e)
    except MonitorViolation as e:
        return ("monitor", e.monitor, e)
    except BaseException as e:  # noqa - foreign exceptions are exactly what we look for
        if isinstance(e, (KeyboardInterrupt, SystemExit)):
            raise
        return ("foreign", type(e).__name__, e)
    return ("ok", node)


def parse_term(text, lexer=None, parser=None):
    """-> ("ok", term) | ("lib"/"foreign"/"monitor"/"decode", name, message)"""
    out = parse_ast(text, lexer, parser)
    if out[0] != "ok":
        return (out[0], out[1], str(out[2])[:300])
    try:
        return ("ok", decode(out[1]))
    except (DecodeError, KeyError, AttributeError) as e:
        return ("decode", type(e).__name__, str(e)[:300])


def outcome_key(out):
    """Hashable, comparable summary of a parse outcome (for determinism checks)."""
    if out[0] == "ok":
        return ("ok", out[1])
    return (out[0], out[1])
