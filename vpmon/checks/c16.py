"""C16 - visitor / transformer base classes traverse completely and never mutate.

Online trace checker: an instrumented NodeVisitor subclass must enter the nodes of a
tree in exactly the depth-first pre-order of its dataclass fields (each node once), must
dispatch each node to visit_<Kind> for exactly the nodes of that kind; a NodeTransformer
without overrides returns an equal tree, with one override differs from the reference map
only at that kind; M-immut holds for every shipped visitor, also when it raises; tree
equality coincides with structural identity (decoded-term equality).
"""
import copy
import dataclasses

from odata_query import ast, visitor as V

from .. import drive
from ..gen import fullgen, terms as T
from ..gen.printer import to_text
from ..mon import contracts
from ..ref.decode import decode, norm_for_parse
from ..envs import visitors as shipped

RULE = ("full-grammar ASTs (every node kind, lists in lists, any() without lambda, named "
        "parameters, namespaced identifiers; depth <= 5 / 7) x {default traversal, one "
        "recording handler per node kind (40 kinds), NodeTransformer without overrides, one "
        "replacing override per node kind, every shipped visitor under M-immut, equality vs "
        "single-point mutations}. distinct = distinct (tree text, sub-check); non-trivial = "
        "tree has >= 4 nodes")
RULE += (" " + 'Also: value-dependent handlers (rotate identifiers / strings, increment integers, identity, empty results) with collision trees; M-immut compares the instance __dict__ keys of every node; traversal re-checked after the shipped visitors ran.')
RULE += (" " + 'Selective handlers: replace the k-th Integer/String chosen by identity, hand all other nodes back unchanged, on lists with repeated values.')
ASSUMPTIONS = ["reference traversal order = dataclasses.fields order, lists left to right",
               "shipped ORM visitors run against the harness models (vpmon/envs)"]
SHARDS = {"quick": 12, "thorough": 16}
BUDGET_S = {"quick": 50, "thorough": 600}

KINDS = [n for n, c in vars(ast).items()
         if isinstance(c, type) and dataclasses.is_dataclass(c) and not n.startswith("_")]


def ref_preorder(node, out):
    out.append(node)
    for f in dataclasses.fields(node):
        v = getattr(node, f.name)
        if isinstance(v, (list, tuple)):
            # every child node counts, whatever sequence type holds it
            for i in v:
                if isinstance(i, ast._Node):
                    ref_preorder(i, out)
        elif isinstance(v, ast._Node):
            ref_preorder(v, out)
    return out


class Enter(V.NodeVisitor):
    def __init__(self):
        self.events = []

    def visit(self, node):
        self.events.append(node)
        return super().visit(node)


def make_handler_visitor(kind):
    calls = []

    def handler(self, node):
        calls.append(node)
        return self.generic_visit(node)
    cls = type("Rec_" + kind, (Enter,), {"visit_" + kind: handler})
    return cls, calls


OPSWAP = {"Add": "Sub", "Sub": "Add", "Mult": "Div", "Div": "Mult", "Mod": "Add",
          "Eq": "NotEq", "NotEq": "Eq", "Lt": "GtE", "LtE": "Gt", "Gt": "LtE", "GtE": "Lt",
          "And": "Or", "Or": "And", "Not": "USub", "USub": "Not", "Any": "All", "All": "Any"}
EXPR_KINDS = ["Identifier", "Attribute", "Null", "Integer", "Float", "Boolean", "String",
              "Geography", "Date", "Time", "DateTime", "Duration", "GUID", "List", "BinOp",
              "Compare", "BoolOp", "UnaryOp", "Call", "CollectionLambda"]
_TAG = {"Identifier": "id", "Attribute": "attr", "List": "list", "BinOp": "bin",
        "Compare": "cmp", "BoolOp": "bool", "UnaryOp": "un", "Call": "call",
        "CollectionLambda": "lam"}
_LIT = {"Null": "null", "Integer": "int", "Float": "float", "Boolean": "bool", "String": "str",
        "Geography": "geo", "Date": "date", "Time": "time", "DateTime": "datetime",
        "Duration": "duration", "GUID": "guid"}
_OPNAME = {"Add": "add", "Sub": "sub", "Mult": "mul", "Div": "div", "Mod": "mod", "Eq": "eq",
           "NotEq": "ne", "Lt": "lt", "LtE": "le", "Gt": "gt", "GtE": "ge", "And": "and",
           "Or": "or", "Not": "not", "USub": "neg", "Any": "any", "All": "all", "In": "in"}


def make_override_transformer(kind):
    if kind in EXPR_KINDS:
        def handler(self, node):
            return ast.Identifier("REPL_" + kind)
    elif kind in OPSWAP:
        def handler(self, node):
            return getattr(ast, OPSWAP[kind])()
    elif kind == "In":
        def handler(self, node):
            return ast.In()
    elif kind == "NamedParam":
        def handler(self, node):
            return ast.NamedParam(node.name, ast.Identifier("REPL_NamedParam"))
    elif kind == "Lambda":
        def handler(self, node):
            return ast.Lambda(node.identifier, ast.Identifier("REPL_Lambda"))
    else:
        return None
    return type("Tr_" + kind, (V.NodeTransformer,), {"visit_" + kind: handler})


def ref_override(t, kind):
    """Reference result (on decoded terms) of the single-kind override above."""
    repl = ("id", "REPL_" + kind, ())

    def is_kind(n):
        if kind in _TAG:
            return n[0] == _TAG[kind]
        if kind in _LIT:
            return n[0] == "lit" and n[1] == _LIT[kind]
        return False

    def go(n):
        k = n[0]
        if kind in EXPR_KINDS and is_kind(n):
            # NodeTransformer.generic_visit does visit Call.func / NamedParam.name /
            # Lambda.identifier (they are _Node fields) - handled by the callers below
            return repl
        if k in ("id", "lit"):
            return n
        if k == "attr":
            return ("attr", go(n[1]), n[2])
        if k == "list":
            return ("list", tuple(go(x) for x in n[1]))
        if k in ("bin", "cmp", "bool"):
            op = n[1]
            if kind in OPSWAP and _OPNAME.get(kind) == op and k != "lam":
                op = _OPNAME[OPSWAP[kind]]
            return (k, op, go(n[2]), go(n[3]))
        if k == "un":
            op = n[1]
            if kind in OPSWAP and _OPNAME.get(kind) == op:
                op = _OPNAME[OPSWAP[kind]]
            return ("un", op, go(n[2]))
        if k == "call":
            return ("call", n[1], tuple(go(x) for x in n[2]))
        if k == "np":
            if kind == "NamedParam":
                return ("np", n[1], ("id", "REPL_NamedParam", ()))
            return ("np", n[1], go(n[2]))
        if k == "lam":
            q = n[2]
            if kind in ("Any", "All") and _OPNAME[kind] == q:
                q = _OPNAME[OPSWAP[kind]]
            if n[4] is None:
                return ("lam", go(n[1]), q, None, None)
            if kind == "Lambda":
                return ("lam", go(n[1]), q, n[3], ("id", "REPL_Lambda", ()))
            return ("lam", go(n[1]), q, n[3], go(n[4]))
        raise ValueError(n)
    return go(t)


def make_value_transformer(kind, node):
    """A handler whose RESULT depends on the node it is given (rotate / increment style):
    within one argument list the result for one item may equal the original value of a
    sibling, which a transformer that places results by value instead of by position
    gets wrong.  -> (transformer class, function on decoded leaves) or None"""
    nodes = ref_preorder(node, [])
    if kind == "Integer":
        def f_int(v):
            return str(int(v) + 1)

        def handler(self, n):
            return ast.Integer(f_int(n.val))
        return type("Succ_Integer", (V.NodeTransformer,), {"visit_Integer": handler}), f_int
    if kind in ("String", "Identifier"):
        attr = "val" if kind == "String" else "name"
        vals = sorted({getattr(n, attr) for n in nodes if type(n).__name__ == kind})
        if len(vals) < 2:
            return None
        rot = {v: vals[(i + 1) % len(vals)] for i, v in enumerate(vals)}
        if kind == "String":
            def handler(self, n):
                return ast.String(rot[n.val])
        else:
            def handler(self, n):
                return ast.Identifier(rot[n.name], n.namespace)
        return type("Rot_" + kind, (V.NodeTransformer,), {"visit_" + kind: handler}), rot.__getitem__
    if kind == "Empty":
        # results that are empty / zero / blank: still nodes, still to be put in place
        def h_list(self, n):
            return ast.List([])

        def h_str(self, n):
            return ast.String("")

        def h_int(self, n):
            return ast.Integer("0")
        return type("Empty", (V.NodeTransformer,),
                    {"visit_List": h_list, "visit_String": h_str, "visit_Integer": h_int}), "empty"
    if kind == "Same":
        # every handler returns the very node it was given
        def handler(self, n):
            return n
        return type("Same", (V.NodeTransformer,),
                    {"visit_" + k: handler for k in ("Identifier", "Integer", "String")}), None
    return None


def ref_value_map(t, kind, f):
    def go(n):
        k = n[0]
        if kind == "Empty":
            if k == "list":
                return ("list", ())
            if k == "lit" and n[1] == "str":
                return ("lit", "str", "")
            if k == "lit" and n[1] == "int":
                return ("lit", "int", "0")
        if k == "id":
            return ("id", f(n[1]), n[2]) if kind == "Identifier" else n
        if k == "lit":
            if kind == "Integer" and n[1] == "int":
                return ("lit", "int", f(n[2]))
            if kind == "String" and n[1] == "str":
                return ("lit", "str", f(n[2]))
            return n
        if k == "attr":
            return ("attr", go(n[1]), n[2])
        if k == "list":
            return ("list", tuple(go(x) for x in n[1]))
        if k in ("bin", "cmp", "bool"):
            return (k, n[1], go(n[2]), go(n[3]))
        if k == "un":
            return ("un", n[1], go(n[2]))
        if k == "call":
            name = n[1]
            if kind == "Identifier":
                *ns, last = name.split(".")
                name = ".".join(ns + [f(last)])
            return ("call", name, tuple(go(x) for x in n[2]))
        if k == "np":
            return ("np", go(n[1]), go(n[2]))
        if k == "lam":
            if n[4] is None:
                return ("lam", go(n[1]), n[2], None, None)
            var = n[3]
            if kind == "Identifier":
                *vns, vlast = n[3].split(".")
                var = ".".join(vns + [f(vlast)])
            return ("lam", go(n[1]), n[2], var, go(n[4]))
        raise ValueError(n)
    return go(t)


# trees in which sibling values collide under the rotate / increment handlers
COLLISION_TEXTS = [
    "concat(first, last) eq 'x'", "contains(last, first)", "n in (1, 2)", "n in (1, 2, 3, 4)",
    "substring(first, 0, 1) eq 'a'", "my.f(a, b, c, a)", "x in ('a', 'b')", "x in ('b', 'a', 'c')",
    "my.f((1, 2), (2, 3), 3)", "my.f(k=1, v=2)", "my.f(a=b, b=a)", "concat('a', 'b') eq concat('b', 'a')",
    "hassubset((1, 2, 3), (3, 2, 1))", "my.f(1, 1, 2, 2, 3)", "my.f(a, a, b)", "my.g(b, my.g(a, b), a)",
    "xs/any(a: my.f(a, b, xs))", "indexof(a, b) eq indexof(b, a)",
    "status in (1, 2, 1)", "x in ('a', 'b', 'a', 'a')", "my.f(1, 1, 1)", "my.f((1, 1), (1, 1))",
    "concat('a', 'a') eq 'a'", "n in (1, 2, 3, 2, 1, 2)", "my.f(k=1, v=1, w=(1, 1))", "substring('a', 1, 1) eq 'a'",
]


def _replace_kth(t, lit_kind, k, new):
    """The term with its k-th (left to right) literal of kind lit_kind replaced."""
    cnt = [0]

    def go(n):
        kk = n[0]
        if kk == "lit":
            if n[1] == lit_kind:
                cnt[0] += 1
                if cnt[0] - 1 == k:
                    return ("lit", lit_kind, new)
            return n
        if kk == "id":
            return n
        if kk == "attr":
            return ("attr", go(n[1]), n[2])
        if kk == "list":
            return ("list", tuple(go(x) for x in n[1]))
        if kk in ("bin", "cmp", "bool"):
            l = go(n[2])
            return (kk, n[1], l, go(n[3]))
        if kk == "un":
            return ("un", n[1], go(n[2]))
        if kk == "call":
            return ("call", n[1], tuple(go(x) for x in n[2]))
        if kk == "np":
            return ("np", n[1], go(n[2]))
        if kk == "lam":
            o = go(n[1])
            return ("lam", o, n[2], n[3], None if n[4] is None else go(n[4]))
        raise ValueError(n)
    return go(t)


def judge_selective_handlers(ctx, node, before, case):
    """Handlers that replace ONE node (chosen by identity: the k-th of its kind) and hand every
    other node back as the very object they were given - the others may be equal by value."""
    nodes = ref_preorder(node, [])
    for kind, lit_kind, marker, mk in (("Integer", "int", "777", ast.Integer), ("String", "str", "~mark", ast.String)):
        targets = [n for n in nodes if type(n).__name__ == kind]
        if len({id(n) for n in targets}) != len(targets) or not targets:
            continue
        picks = sorted({len(targets) - 1, len(targets) // 2, 0} |
                       {i for i, n in enumerate(targets) if any(m == n for m in targets[:i])})[:8]
        for k in picks:
            target = targets[k]

            def handler(self, n, target=target):
                return mk(marker) if n is target else n
            trc = type("Only_%s_%d" % (kind, k), (V.NodeTransformer,), {"visit_" + kind: handler})
            ctx.count("evaluations")
            ctx.count("selective_handlers")
            try:
                got = decode(trc().visit(node))
            except Exception as ex:
                ctx.fail(dict(case, handler=trc.__name__), "transformer with a selective override raised",
                         observed=repr(ex)[:200], cls="transform-selective", sig=["tsel-exc", kind])
                return False
            want_t = _replace_kth(before, lit_kind, k, marker)
            if got != want_t:
                ctx.fail(dict(case, handler=trc.__name__),
                         "transformer with a handler that replaces one node changed other nodes",
                         expected=want_t, observed=got, cls="transform-selective", sig=["tsel", kind])
                return False
            if decode(node) != before:
                ctx.fail(dict(case, handler=trc.__name__), "transformer mutated its input",
                         cls="transform-selective", sig=["tsel-mut"])
                return False
    return True


def judge_value_handlers(ctx, node, before, case, big):
    if not judge_selective_handlers(ctx, node, before, case):
        return False
    for kd in ("Integer", "String", "Identifier", "Same", "Empty"):
        made = make_value_transformer(kd, node)
        if made is None:
            continue
        trc, f = made
        ctx.count("evaluations")
        ctx.count("value_handlers")
        try:
            res = trc().visit(node)
            got = decode(res)
        except Exception as ex:
            ctx.fail(dict(case, handler=trc.__name__), "transformer with a value-dependent override raised",
                     observed=repr(ex)[:200], cls="transform-value", sig=["tval-exc", kd])
            return False
        want_t = before if f is None else ref_value_map(before, kd, f)
        if big:
            ctx.seen([case["text"], "value-handler", kd])
        if got != want_t:
            ctx.fail(dict(case, handler=trc.__name__),
                     "transformer did not put each handler result in the place of the node it was "
                     "computed from", expected=want_t, observed=got, cls="transform-value",
                     sig=["tval", kd])
            return False
        if decode(node) != before:
            ctx.fail(dict(case, handler=trc.__name__), "transformer mutated its input",
                     cls="transform-value", sig=["tval-mut"])
            return False
    return True


def mutate_point(rng, t):
    """Single-point structural mutation of a term (guaranteed different term)."""
    from ..shrink import _positions, _replace_at
    positions = list(_positions(t))
    for _ in range(20):
        pos, target = rng.choice(positions)
        k = target[0]
        if k == "id":
            new = ("id", target[1] + "z", target[2])
        elif k == "lit" and target[1] == "int":
            new = ("lit", "int", target[2] + "1")
        elif k == "lit" and target[1] == "str":
            new = ("lit", "str", target[2] + "q")
        elif k == "bin":
            new = ("bin", "add" if target[1] != "add" else "sub", target[2], target[3])
        elif k == "cmp" and target[1] != "in":
            new = ("cmp", "eq" if target[1] != "eq" else "ne", target[2], target[3])
        elif k == "bool":
            new = ("bool", "and" if target[1] == "or" else "or", target[2], target[3])
        elif k == "list" and len(target[1]) > 1:
            new = ("list", target[1][:-1])
        elif k == "attr":
            new = ("attr", target[1], target[2] + "z")
        elif k == "un":
            new = ("un", "not" if target[1] == "neg" else "neg", target[2])
        elif k == "call" and target[2]:
            new = ("call", target[1], target[2][::-1]) if len(target[2]) > 1 and \
                target[2][0] != target[2][-1] else ("call", target[1] + "x" if "." in target[1] else target[1], target[2])
        elif k == "lam" and target[3]:
            new = ("lam", target[1], "all" if target[2] == "any" else "any", target[3], target[4])
        elif k == "np":
            new = ("np", ("id", target[1][1] + "z", ()), target[2])
        else:
            continue
        if new == target:
            continue
        t2 = _replace_at(t, pos, new)
        if t2 != t:
            return t2
    return None


def judge_tree(ctx, t, rng, full):
    text = to_text(t)
    o = drive.parse_ast(text)
    if o[0] != "ok":
        ctx.count("source_rejected")
        return
    node = o[1]
    term = decode(node)
    big = T.size(term) >= 4
    case = {"text": text}

    # 1. default traversal order ---------------------------------------------------------
    ctx.count("evaluations")
    want = ref_preorder(node, [])
    e = Enter()
    e.visit(node)
    if big:
        ctx.seen([text, "order"])
    if len(e.events) != len(want) or any(a is not b for a, b in zip(e.events, want)):
        ctx.fail(case, "default traversal is not the depth-first pre-order (each node once)",
                 expected=[type(n).__name__ for n in want],
                 observed=[type(n).__name__ for n in e.events], cls="order", sig=["order"])
        return
    ctx.count("trace_events", len(want))
    present = {type(n).__name__ for n in want}
    for kd in present:
        ctx.cls("kind:" + kd)

    # 2. per-kind handler dispatch ---------------------------------------------------------
    kinds = sorted(present) if full else rng.sample(sorted(present), min(4, len(present)))
    for kd in kinds + ([rng.choice(KINDS)] if not full else [k for k in KINDS if k not in present][:3]):
        ctx.count("evaluations")
        cls, calls = make_handler_visitor(kd)
        v = cls()
        v.visit(node)
        exp_calls = [n for n in want if type(n).__name__ == kd]
        if big:
            ctx.seen([text, "handler", kd])
        if len(calls) != len(exp_calls) or any(a is not b for a, b in zip(calls, exp_calls)) \
                or len(v.events) != len(want):
            ctx.fail(dict(case, kind=kd), "visit_<Kind> handler not called for exactly the nodes "
                     "of that kind (or traversal changed)", expected=len(exp_calls),
                     observed=len(calls), cls="dispatch", sig=["dispatch", kd])
            return

    # 2b. a handler that RAISES: the caller sees exactly that exception, and the traversal
    # stops there (nothing is dispatched after it, nothing is handed to the default path)
    for kd in kinds[:3]:
        first = next((n for n in want if type(n).__name__ == kd), None)
        if first is None:
            continue
        for exc_cls in (AttributeError, KeyError, RuntimeError):
            boom = exc_cls("handler failed on purpose")
            for base in (V.NodeVisitor, V.NodeTransformer):
                seen = []

                def rec_visit(self, node, _seen=seen, _orig=base.visit):
                    _seen.append(node)
                    return _orig(self, node)

                def handler(self, node, _boom=boom):
                    raise _boom
                cls = type("Raise_" + kd, (base,), {"visit": rec_visit, "visit_" + kd: handler})
                ctx.count("evaluations")
                ctx.count("raising_handlers")
                got = None
                try:
                    cls().visit(node)
                except BaseException as ex:   # noqa: B902 - the identity of the exception is the point
                    got = ex
                idx = next(i for i, n in enumerate(want) if n is first)
                ok = got is boom and len(seen) == idx + 1 and all(a is b for a, b in zip(seen, want))
                if not ok:
                    ctx.fail(dict(case, kind=kd, exception=exc_cls.__name__, base=base.__name__),
                             "an exception raised by a handler does not reach the caller unchanged "
                             "(or the traversal went on after it)",
                             expected="%s after %d dispatches" % (exc_cls.__name__, idx + 1),
                             observed="%s after %d dispatches" % (type(got).__name__ if got else "no exception", len(seen)),
                             cls="raising-handler", sig=["raise", exc_cls.__name__, base.__name__])
                    return

    # 3. transformer without overrides / with one override ----------------------------------
    ctx.count("evaluations")
    before = decode(node)
    res = V.NodeTransformer().visit(node)
    if not (res == node) or decode(res) != before or res is node and False:
        ctx.fail(case, "NodeTransformer without overrides returned an unequal tree",
                 expected=before, observed=decode(res), cls="transform-id", sig=["tid"])
        return
    for kd in kinds:
        trc = make_override_transformer(kd)
        if trc is None:
            continue
        ctx.count("evaluations")
        try:
            res = trc().visit(node)
            got = decode(res)
        except Exception as ex:
            # replacing Call.func/NamedParam.name/Lambda.identifier by the marker identifier
            # keeps the tree decodable; anything else is a failure of the transformer
            ctx.fail(dict(case, kind=kd), "transformer with one override raised / undecodable",
                     observed=repr(ex)[:200], cls="transform-one", sig=["tone-exc", kd])
            return
        want_t = ref_override_full(before, kd)
        if big:
            ctx.seen([text, "override", kd])
        if got != want_t:
            ctx.fail(dict(case, kind=kd), "transformer with one override changed other nodes "
                     "(or missed some)", expected=want_t, observed=got, cls="transform-one",
                     sig=["tone", kd])
            return
        if decode(node) != before:
            ctx.fail(dict(case, kind=kd), "transformer mutated its input", cls="transform-one",
                     sig=["tone-mut"])
            return

    # 3b. value-dependent handlers (rotate / increment / identity) ---------------------------
    if not judge_value_handlers(ctx, node, before, case, big):
        return

    # 4. shipped visitors under M-immut (the monitor raises inside visit) ------------------
    for name, run_visitor in shipped.RUNNERS.items():
        ctx.count("evaluations")
        ctx.cls("shipped:" + name)
        try:
            run_visitor(node)
        except contracts.ImmutBroken as ex:
            ctx.fail(dict(case, visitor=name), "shipped visitor modified the tree it was given",
                     observed=str(ex)[:400], cls="immut", sig=["immut", name])
            return
        except Exception:
            ctx.count("shipped_visitor_raised")   # refusing is fine (C12 judges how)
        if decode(node) != before:
            ctx.fail(dict(case, visitor=name), "tree differs after a shipped visitor ran",
                     cls="immut", sig=["immut2", name])
            return

    # 4b. a tree that has been through every shipped visitor is still traversed the same way ---
    ctx.count("evaluations")
    e2 = Enter()
    e2.visit(node)
    if len(e2.events) != len(want) or any(a is not b for a, b in zip(e2.events, want)):
        ctx.fail(case, "after the shipped visitors ran, the default traversal of the same tree is "
                 "no longer the depth-first pre-order (each node once)",
                 expected=[type(n).__name__ for n in want],
                 observed=[type(n).__name__ for n in e2.events], cls="order-after", sig=["order2"])
        return

    # 5. equality == structural identity --------------------------------------------------------
    ctx.count("evaluations")
    twin = drive.parse_ast(text)[1]
    cp = copy.deepcopy(node)
    if not (twin == node) or not (cp == node) or (twin != node):
        ctx.fail(case, "structurally identical trees compare unequal", cls="eq", sig=["eq1"])
        return
    try:
        if hash(twin) != hash(node):
            ctx.fail(case, "equal trees have different hashes", cls="eq", sig=["hash"])
            return
        ctx.count("hash_checked")
    except TypeError:
        pass
    t2 = mutate_point(rng, term)
    if t2 is not None:
        o2 = drive.parse_ast(to_text(t2))
        if o2[0] == "ok":
            d2 = decode(o2[1])
            ctx.count("eq_mutations")
            if (o2[1] == node) != (d2 == before):
                ctx.fail(dict(case, other=to_text(t2)),
                         "tree equality disagrees with structural identity",
                         expected=(d2 == before), observed=(o2[1] == node), cls="eq",
                         sig=["eq2"])


def ref_override_full(term, kind):
    """ref_override + the places where an Identifier handler also fires: Call.func,
    NamedParam.name and Lambda.identifier are Identifier *nodes* in the library AST."""
    if kind != "Identifier":
        return ref_override(term, kind)

    def go(n):
        k = n[0]
        if k == "id":
            return ("id", "REPL_Identifier", ())
        if k == "lit":
            return n
        if k == "attr":
            return ("attr", go(n[1]), n[2])
        if k == "list":
            return ("list", tuple(go(x) for x in n[1]))
        if k in ("bin", "cmp", "bool"):
            return (k, n[1], go(n[2]), go(n[3]))
        if k == "un":
            return ("un", n[1], go(n[2]))
        if k == "call":
            return ("call", "REPL_Identifier", tuple(go(x) for x in n[2]))
        if k == "np":
            return ("np", ("id", "REPL_Identifier", ()), go(n[2]))
        if k == "lam":
            if n[4] is None:
                return ("lam", go(n[1]), n[2], None, None)
            return ("lam", go(n[1]), n[2], "REPL_Identifier", go(n[4]))
        raise ValueError(n)
    return go(term)


SUBCLASS_FILTERS = [
    "title eq 'A1' and tags/any(t: t/label eq 'B2')",
    "comments/all(c: c/text ne 'C3' or contains(c/text, 'D4')) or title eq 'E5'",
    "tags/any(t: t/posts/any(p: p/title eq 'F6' and p/comments/any(c: c/text eq 'G7'))) and title ne 'H8'",
    "author/name eq 'I9' and author/posts/any(p: startswith(p/title, 'J0'))",
    "title in ('K1', 'L2') and comments/any(c: c/text in ('M3', 'N4'))",
]


def judge_subclassed_shipped(ctx):
    """A subclass of a shipped visitor with its own constructor and ONE overridden handler:
    the handler sees every node of its kind the visitor translates - also the ones inside
    any()/all() bodies, for which the ORM visitors build further visitor objects."""
    from ..envs import django_env, sqla_env
    from odata_query.django.django_q import AstToDjangoQVisitor
    from odata_query.sqlalchemy.orm import AstToSqlAlchemyOrmVisitor
    from odata_query.sql.sqlite import AstToSqliteSqlVisitor
    from odata_query.roundtrip import AstToODataVisitor
    M = django_env.models()
    bases = {"sqlalchemy-orm": (AstToSqlAlchemyOrmVisitor, lambda c: c(sqla_env.Post, fold_case=True)),
             "django": (AstToDjangoQVisitor, lambda c: c(M.Post, fold_case=True)),
             "roundtrip": (AstToODataVisitor, lambda c: c(fold_case=True)),
             "sql-sqlite": (AstToSqliteSqlVisitor, lambda c: c(fold_case=True))}
    for bname, (base, make) in bases.items():
        for text in SUBCLASS_FILTERS:
            o = drive.parse_ast(text)
            if o[0] != "ok":
                continue
            node = o[1]
            want = [n.val for n in ref_preorder(node, []) if type(n).__name__ == "String"]
            seen = []

            def __init__(self, *a, fold_case=False, **kw):
                base.__init__(self, *a, **kw)
                self.fold_case = fold_case

            def visit_String(self, n, _seen=seen):
                _seen.append(n.val)
                return base.visit_String(self, n)
            cls = type("Configurable_" + bname.replace("-", "_"), (base,),
                       {"__init__": __init__, "visit_String": visit_String})
            ctx.count("evaluations")
            ctx.count("subclassed_shipped_visitors")
            ctx.seen(["subclass", bname, text])
            try:
                make(cls).visit(node)
            except Exception as ex:
                if bname in ("sql-sqlite",):
                    continue        # paths / lambdas are refused by the SQL dialects
                ctx.fail({"text": text, "visitor": bname}, "a subclass of a shipped visitor (own constructor, "
                         "one overridden handler) fails where the visitor itself translates",
                         observed=repr(ex)[:200], cls="subclass-shipped", sig=["sub-exc", bname])
                continue
            if sorted(seen) != sorted(want):
                ctx.fail({"text": text, "visitor": bname},
                         "the overridden handler of a subclassed shipped visitor was not called for exactly "
                         "the nodes of its kind", expected=want, observed=seen, cls="subclass-shipped",
                         sig=["sub", bname])
        ctx.cls("subclassed:" + bname)


def run(ctx):
    contracts.install_parse()
    contracts.install_visit_trace()
    shipped.setup()
    if ctx.shard == 0:
        judge_subclassed_shipped(ctx)
    rng = ctx.rng("c16")
    o = fullgen.Opts()
    maxd = ctx.pick(5, 7)
    for j, text in enumerate(COLLISION_TEXTS):
        if ctx.mine(j):
            o0 = drive.parse_term(text)
            if o0[0] == "ok":
                judge_tree(ctx, o0[1], rng, full=False)
                ctx.cls("collision-trees")
    for i in range(ctx.pick(900, 16000)):
        if ctx.out_of_time():
            break
        t = fullgen.gen_expr(rng, o, rng.randint(1, maxd))
        if T.size(t) > 150:
            continue
        judge_tree(ctx, norm_for_parse(t), rng, full=(i % 10 == 0))
        if i % 300 == 0:
            ctx.sample({"text": to_text(t)[:160], "nodes": T.size(t)})
    contracts.flush_counts(ctx)


def requirements(m):
    out = []
    if m["counters"].get("M-immut", 0) < 100:
        out.append("M-immut evaluated fewer than 100 times")
    missing = [k for k in KINDS if not m["classes"].get("kind:" + k)]
    if missing:
        out.append("node kinds never generated: %s" % missing)
    for name in shipped.EXPECTED:
        if not m["classes"].get("shipped:" + name):
            out.append("shipped visitor never run: " + name)
    if not m["counters"].get("eq_mutations"):
        out.append("no equality mutations")
    return out


def replay(ctx, case):
    import random
    contracts.install_visit_trace()
    shipped.setup()
    t = drive.parse_term(case["text"])[1]
    judge_tree(ctx, t, random.Random(0), full=True)
