"""C03 - SQLAlchemy ORM and Core shorthands return exactly the rows the filter denotes.

Refuting events: for one of the three entry styles - apply_odata_query(select(T.id)),
apply_odata_query(session.query(T)), apply_odata_core(select(t.c.id)) - the ids differ
from the reference set, two styles differ from each other, or two keyword-case spellings
of one filter differ.
"""
import random

import sqlalchemy as sa

from odata_query import exceptions

from .. import findings
from ..envs import sqla_env
from ..gen import scalar, terms as T
from ..gen.printer import to_text, Style
from ..mon import contracts
from . import scalar_common as SC

RULE = ("typed Bool-rooted filters over the SQLAlchemy-supported scalar fragment (as C02) with "
        "randomised keyword case, x 3 entry styles (select(Model.id), session.query(Model), "
        "select(table.c.id)); rows as in C01. distinct = distinct (filter text as spelled); "
        "non-trivial = selects at least one judged row and rejects at least one")
RULE += (" " + 'Added lanes (each per entry style): machine numbers incl. integer groups under float arithmetic; long in-lists; same-field chains; fixed-point column (Numeric(5,2)).')
RULE += (" " + 'Round-10 lanes: numeric-spelling twins, grouping grid, bracket-string groups (as in C01), per entry style.')
RULE += (" " + 'Rounds 13-14: NULLable column of five kinds x eq / ne both orders, in, null tests, in-lists holding a null literal x 7 negation wrappers x every entry style.')
ASSUMPTIONS = ["SQLAlchemy 2.0 on in-memory SQLite; strpos/concat registered as UDFs with "
               "PostgreSQL semantics; column f NOT NULL (SQLAlchemy's own SQLite floor UDF "
               "raises on NULL)",
               "reference evaluator + UNSPEC as in C01; unary minus and bare boolean columns "
               "as generated are part of the fragment if the backend accepts them"]
SHARDS = {"quick": 12, "thorough": 16}
BUDGET_S = {"quick": 55, "thorough": 800}

SQLA_FUNCS = {"contains", "startswith", "endswith", "length", "indexof", "substring", "tolower",
              "toupper", "trim", "concat", "year", "month", "day", "hour", "minute", "second",
              "date", "time", "now", "round", "floor", "ceiling"}


class CaseStyle(Style):
    def __init__(self, rng):
        self.rng = rng

    def kw(self, word):
        m = self.rng.randrange(4)
        if m == 0:
            return word
        if m == 1:
            return word.upper()
        if m == 2:
            return word.capitalize()
        return "".join(c.upper() if self.rng.random() < 0.5 else c for c in word)


def profile(finding_lane=False):
    p = scalar.Profile()
    p.funcs = set(SQLA_FUNCS)
    p.columns = dict(scalar.SCHEMA, m="decimal", iv="duration")
    p.types = {"int", "float", "str", "bool", "datetime", "decimal", "duration"}
    p.duration_lits = scalar.IV_LITS
    p.bool_cmp_atoms = False
    p.null_left = True
    p.bare_bool_column = True
    p.str_add = True
    p.neg = False
    p.neg_literal = False
    if not finding_lane:
        p.pattern_columns = False
        p.pattern_exprs = False
        p.str_lits = [s for s in scalar.STR_LITS if "%" not in s and "_" not in s]
        p.arith = {"add", "sub", "mul", "mod"}      # div: known finding (true division)
        p.funcs = p.funcs - {"date", "time"}         # CAST on SQLite: known finding
    return p


STYLES = ["orm-select", "orm-query", "core"]


def run_style(style, text):
    from odata_query.sqlalchemy import apply_odata_query, apply_odata_core
    if style == "orm-select":
        q = apply_odata_query(sa.select(sqla_env.T.id), text)
        with sqla_env.session() as s:
            return sorted(r[0] for r in s.execute(q))
    if style == "orm-query":
        with sqla_env.session() as s:
            q = apply_odata_query(s.query(sqla_env.T), text)
            return sorted(o.id for o in q.all())
    q = apply_odata_core(sa.select(sqla_env.T.__table__.c.id), text)
    with sqla_env.engine().connect() as con:
        return sorted(r[0] for r in con.execute(q))


def make_select(style, text_of):
    def select(text, rows):
        sqla_env.load_scalar(rows)
        try:
            return run_style(style, text_of(text))
        except exceptions.ODataException as e:
            raise SC.BackendError("refused", "%s: %s" % (type(e).__name__, e))
        except contracts.MonitorViolation as e:
            raise SC.BackendError("monitor", str(e)[:300])
        except Exception as e:
            raise SC.BackendError("raises", "%s: %s" % (type(e).__name__, str(e)[:200]))
    return select


def case_extra(text):
    from odata_query.sqlalchemy import apply_odata_core
    try:
        q = apply_odata_core(sa.select(sqla_env.T.__table__.c.id), text)
        return {"sql": str(q.compile(sqla_env.engine(), compile_kwargs={"literal_binds": False}))}
    except Exception as e:
        return {"sql": repr(e)[:200]}


def run(ctx):
    contracts.install_parse()
    contracts.install_visit_trace()
    contracts.install_infer()
    sqla_env.engine()
    rng = ctx.rng("c03")
    clean, lane2 = profile(False), profile(True)
    maxd = ctx.pick(4, 6)
    for fname in sorted(SQLA_FUNCS):
        if ctx.mine(sorted(SQLA_FUNCS).index(fname)):
            for style in STYLES:
                SC.judge(ctx, scalar.simple_filter_for(rng, lane2, fname), rng, make_select(style, lambda x: x),
                         findings.sqla_semantic_triggers, "coverage:" + style, cap=150, profile=lane2)
                ctx.cls("style:" + style)
    for style in STYLES:
        SC.math_of_int_lane(ctx, ctx.rng("mathint" + style), make_select(style, lambda x: x),
                            findings.sqla_semantic_triggers, profile=clean)
        if style == STYLES[ctx.shard % len(STYLES)]:
            SC.bracket_string_lane(ctx, ctx.rng("brackets" + style), make_select(style, lambda x: x),
                                   findings.sqla_semantic_triggers, profile=clean)
        SC.bool_operand_lane(ctx, ctx.rng("boolops" + style), make_select(style, lambda x: x),
                             findings.sqla_semantic_triggers, profile=clean)
        SC.in_list_shape_lane(ctx, ctx.rng("inshape" + style), make_select(style, lambda x: x),
                              findings.sqla_semantic_triggers, profile=clean)
        SC.nullable_key_lane(ctx, ctx.rng("nullkey" + style), make_select(style, lambda x: x),
                             findings.sqla_semantic_triggers, kinds=("date", "str", "int", "datetime", "bool"), null_items=True)
        SC.int_vs_decimal_lane(ctx, ctx.rng("intdec" + style), make_select(style, lambda x: x),
                               findings.sqla_semantic_triggers, profile=clean)
        SC.interval_lane(ctx, ctx.rng("interval" + style), make_select(style, lambda x: x),
                         findings.sqla_semantic_triggers, profile=clean)
        SC.math_of_literal_lane(ctx, ctx.rng("mathlit" + style), make_select(style, lambda x: x),
                                findings.sqla_semantic_triggers, profile=clean)
        SC.neutral_boolean_lane(ctx, ctx.rng("neutral" + style), make_select(style, lambda x: x),
                                findings.sqla_semantic_triggers, profile=clean)
        SC.grouping_grid_lane(ctx, ctx.rng("grid" + style), make_select(style, lambda x: x),
                              findings.sqla_semantic_triggers, profile=clean)
        SC.spelling_twin_lane(ctx, ctx.rng("twin" + style), make_select(style, lambda x: x),
                              findings.sqla_semantic_triggers, profile=clean)
        SC.neg_stack_lane(ctx, ctx.rng("negstack" + style), make_select(style, lambda x: x),
                          findings.sqla_semantic_triggers, profile=clean, depth=ctx.pick(6, 10))
        SC.big_list_lane(ctx, ctx.rng("biglist" + style), make_select(style, lambda x: x),
                         findings.sqla_semantic_triggers, ctx.pick(2, 20), profile=clean)
        SC.machine_lane(ctx, ctx.rng("machine" + style), make_select(style, lambda x: x),
                        findings.sqla_semantic_triggers, ctx.pick(15, 400), profile=clean)
    for i in range(ctx.pick(500, 20000)):
        if ctx.out_of_time():
            break
        finding_lane = i % 6 == 5
        p = lane2 if finding_lane else clean
        t = scalar.gen_bool(rng, p, rng.randint(1, maxd))
        if T.size(t) > 70:
            continue
        cls = "finding-lane" if finding_lane else "clean"
        # the canonical spelling through each style against the reference
        results = {}
        for style in STYLES:
            ok = SC.judge(ctx, t, rng, make_select(style, lambda x: x),
                          findings.sqla_semantic_triggers, cls + ":" + style, cap=150,
                          extra_case=lambda text, style=style: dict(case_extra(text), style=style),
                          profile=p)
            ctx.cls("style:" + style)
            results[style] = ok
        # keyword-case variant must select the same ids as the canonical spelling
        if all(results.values()):
            seed = rng.random()
            variant = to_text(t, style=CaseStyle(random.Random(seed)))
            if variant != to_text(t):
                from ..gen import rows as R
                rows = R.rows_for(scalar.columns_of(t), rng, 150)
                sqla_env.load_scalar(rows)
                ctx.count("case_variants")
                for style in STYLES:
                    try:
                        a = run_style(style, to_text(t))
                    except Exception:
                        continue
                    try:
                        b = run_style(style, variant)
                    except Exception as e:
                        b = "raises %s: %s" % (type(e).__name__, str(e)[:100])
                    ctx.count("evaluations")
                    if a != b and any(n[0] == "call" and n[1] == "now" for n in T.walk(t)):
                        # the two spellings are executed at two moments: with now() in the
                        # filter only a difference that survives a second look is one
                        try:
                            a2, b2 = run_style(style, to_text(t)), run_style(style, variant)
                        except Exception:
                            a2, b2 = None, None
                        ctx.count("clock_dependent_recheck")
                        if a2 == b2:
                            continue
                    if a != b:
                        ctx.fail({"filter": to_text(t), "variant": variant, "style": style, "term": t},
                                 "keyword spelling changes the result", expected=a, observed=b,
                                 keys=findings.sqla_case_triggers(variant), cls="case",
                                 sig=["case", style])
                        break
        if i % 150 == 0:
            ctx.sample(dict(filter=to_text(t)[:200], **case_extra(to_text(t))))
    contracts.flush_counts(ctx)


def requirements(m):
    out = []
    c = m["counters"]
    if c.get("rows_compared", 0) < 10000:
        out.append("fewer than 10000 rows compared")
    if c.get("case_variants", 0) < 20:
        out.append("fewer than 20 keyword-case variants")
    for s in STYLES:
        if not m["classes"].get("style:" + s):
            out.append("entry style never used: " + s)
    need = ["kind:call:" + f for f in SQLA_FUNCS] + \
           ["kind:" + k for k in ("add", "sub", "mul", "mod", "eq", "ne", "lt", "le",
                                  "gt", "ge", "in", "and", "or", "not", "lit:null")]
    for k in need:
        if not m["classes"].get(k):
            out.append("construct never exercised: " + k)
    return out


def replay(ctx, case):
    def tup(x):
        return tuple(tup(i) for i in x) if isinstance(x, list) else x
    sqla_env.engine()
    t = tup(case["term"])
    print(case_extra(to_text(t)))
    for style in STYLES:
        SC.judge(ctx, t, random.Random(0), make_select(style, lambda x: x), lambda *a: [],
                 "replay:" + style, cap=150)
