"""C04 - navigation paths and any/all lambdas mean what OData says on both ORMs.

Refuting events: for a parent entity and a relational filter, the Django or the
SQLAlchemy ORM shorthand returns a parent set different from the reference evaluation
over the object graph (to-one navigation through a NULL key yields null; any() = non-
empty; any(x:p) = some child satisfies p; all(x:p) = every child, true on empty); the two
ORMs differ; a parent appears twice.
"""
import sqlalchemy as sa

from odata_query import exceptions

from .. import drive, findings
from ..envs import django_env, sqla_env
from ..gen import relational as R, terms as T
from ..gen.printer import to_text
from ..mon import contracts
from ..shrink import shrink

RULE = ("relational filters: to-one paths of depth 1..3 compared to literals / null, the "
        "relationship itself eq/ne null, any() / any(x:p) / all(x:p) with owners that are "
        "collections or paths, lambdas nested to depth 2 with scalar bodies over non-null "
        "child columns, arbitrary and/or/not composition with plain predicates, roots Post "
        "and Author; instances: one canonical instance (every pass/fail pattern of 0..3 "
        "children, NULL foreign keys, shared m2m children) + random instances. distinct = "
        "distinct (filter text, instance); non-trivial = selects at least one judged parent "
        "and rejects at least one")
RULE += (" " + "Schema also has: Region (NOT NULL key, innerjoin hint), relationship name 'home' on two entities to two tables (Post.home NOT NULL), one-to-one Profile seen from the side without the key; instances with dangling keys (SQLAlchemy only).")
ASSUMPTIONS = ["reference evaluation over the object graph in vpmon/gen/relational.py",
               "to-one navigation inside a lambda body is outside the quantifier (reported "
               "lane only); all() through a missing to-one owner is not pinned (UNSPEC)",
               "no self-referential relationships"]
SHARDS = {"quick": 12, "thorough": 16}
BUDGET_S = {"quick": 55, "thorough": 800}

ROOTS = {"post": ("Post", "post"), "author": ("Author", "author"), "comment": ("Comment", "comment"),
         "tag": ("Tag", "tag"), "country": ("Country", "country"), "region": ("Region", "region")}


def run_django(entity, text):
    from odata_query.django import apply_odata_query
    M = django_env.models()
    model = getattr(M, ROOTS[entity][0])
    return list(apply_odata_query(model.objects.all(), text).values_list("id", flat=True))


def run_sqla(entity, text):
    from odata_query.sqlalchemy import apply_odata_query
    model = getattr(sqla_env, ROOTS[entity][0])
    q = apply_odata_query(sa.select(model.id), text)
    with sqla_env.session() as s:
        return [r[0] for r in s.execute(q)]


BACKENDS = {"django": run_django, "sqlalchemy": run_sqla}


def outcome(backend, entity, text):
    try:
        return ("ids", BACKENDS[backend](entity, text))
    except exceptions.ODataException as e:
        return ("refused", "%s: %s" % (type(e).__name__, str(e)[:100]))
    except contracts.MonitorViolation as e:
        return ("monitor", str(e)[:300])
    except Exception as e:
        return ("raises", "%s: %s" % (type(e).__name__, str(e)[:160]))


def reference(graph, entity, t):
    ev = R.RelEval(graph)
    true_ids, unspec = [], []
    for row in graph.inst[entity]:
        v = ev.truth(t, entity, row)
        if v is R.UNSPEC:
            unspec.append(row["id"])
        elif v is True:
            true_ids.append(row["id"])
    return sorted(true_ids), set(unspec), ev.flags


def compare(graph, entity, t, backend):
    exp, unspec, flags = reference(graph, entity, t)
    out = outcome(backend, entity, to_text(t))
    if out[0] != "ids":
        return ("backend-" + out[0], out[1], flags, False)
    got = out[1]
    n_all = len(graph.inst[entity])
    nontrivial = 0 < len(exp) < n_all - len(unspec)
    if len(got) != len(set(got)):
        return ("parent-returned-twice", sorted(got), flags, nontrivial)
    got_j = sorted(i for i in got if i not in unspec)
    if got_j != exp:
        return ("parents-differ", {"got": got_j, "expected": exp,
                                   "complement": sorted(set(r["id"] for r in graph.inst[entity])
                                                        - set(exp) - unspec) == got_j},
                flags, nontrivial)
    return (None, None, flags, nontrivial)


def judge(ctx, graph, inst_name, entity, t, lane):
    text = to_text(t)
    o = drive.parse_ast(text)
    if o[0] != "ok":
        ctx.count("source_rejected")
        return
    results = {}
    for backend in BACKENDS:
        if backend == "django" and graph.inst.get("_dangling"):
            continue        # Django enforces foreign keys on SQLite: such content cannot exist there
        ctx.count("evaluations")
        prob, detail, flags, nontrivial = compare(graph, entity, t, backend)
        if nontrivial:
            ctx.seen([text, inst_name, backend])
        results[backend] = prob
        for k in T.kinds(t):
            ctx.cls("kind:" + k)
        ctx.cls("root:" + entity)
        if prob is None:
            continue
        if lane == "reported-only":
            ctx.count("reported_only_mismatches")
            ctx.cls("reported-only:%s:%s" % (backend, prob))
            continue
        sig0 = prob

        def still(t2):
            if drive.parse_ast(to_text(t2))[0] != "ok":
                return False
            return compare(graph, entity, t2, backend)[0] == sig0
        small = shrink(t, still, max_tries=80, accept=lambda x: R.welltyped(x, entity))
        if small is not t and still(small):
            prob, detail, flags, _ = compare(graph, entity, small, backend)
            t2 = small
        else:
            t2 = t
        keys = findings.relational_triggers(t2, backend, flags, prob, root=entity, detail=detail)
        ctx.fail({"filter": to_text(t2), "root": entity, "backend": backend, "instance": inst_name,
                  "term": t2, "instance_data": graph.inst if len(str(graph.inst)) < 6000 else None},
                 prob, expected="parents per OData semantics", observed=detail, keys=keys,
                 cls=lane + ":" + backend, sig=[prob, backend, sorted(keys)])


def run(ctx):
    contracts.install_parse()
    contracts.install_visit_trace()
    django_env.setup()
    sqla_env.engine()
    rng = ctx.rng("c04")
    n_inst = ctx.pick(3, 14)
    per_inst = ctx.pick(110, 700)
    instances = [("canonical", R.canonical_instance())]
    for i in range(n_inst):
        instances.append(("random-%d-%d" % (ctx.shard, i), R.random_instance(rng)))
    for i in range(ctx.pick(1, 4)):
        instances.append(("dangling-%d-%d" % (ctx.shard, i), R.dangling_instance(rng)))
    for inst_name, inst in instances:
        if not inst.get("_dangling"):
            django_env.load_relational(inst)
        else:
            ctx.cls("instances-with-dangling-keys")
        sqla_env.load_relational(inst)
        graph = R.Graph(inst)
        ctx.cls("instances")
        if inst_name == "canonical" or inst_name.endswith("-0"):
            # directed cells: collections behind to-one paths as lambda owners (see the generator)
            k = 0
            for entity in ("post", "comment", "author", "country"):
                for t in R.owner_path_lambda_grid(entity):
                    k += 1
                    if ctx.mine(k):
                        ctx.count("owner_path_lambda_cells")
                        judge(ctx, graph, inst_name, entity, t, "judged")
        for i in range(per_inst):
            if ctx.out_of_time():
                break
            r = rng.random()
            entity = ("post" if r < 0.45 else "author" if r < 0.65 else "comment" if r < 0.85
                      else "tag" if r < 0.92 else "country" if r < 0.97 else "region")
            if inst.get("_dangling"):
                # more roots with a mandatory key (Post.home, Country.region)
                entity = rng.choice(["post", "post", "country", "country", "author", "comment"])
            lane = "judged"
            opts = {}
            if i % 10 == 9:
                lane, opts = "reported-only", {"to_one_in_body": True}
            t = R.gen_filter(rng, entity, rng.randint(0, 3), opts)
            if T.size(t) > 80:
                continue
            judge(ctx, graph, inst_name, entity, t, lane)
            if i % 100 == 0:
                ctx.sample({"root": entity, "filter": to_text(t)[:200], "instance": inst_name,
                            "expected": reference(graph, entity, t)[0]})
    contracts.flush_counts(ctx)


def requirements(m):
    out = []
    for k in ("kind:lam:any", "kind:lam:all", "kind:attr", "kind:and", "kind:or", "kind:not",
              "kind:lit:null", "root:post", "root:author", "root:comment", "root:tag", "root:country"):
        if not m["classes"].get(k):
            out.append("construct never exercised: " + k)
    if m["classes"].get("instances", 0) < 4:
        out.append("fewer than 4 instances")
    return out


def replay(ctx, case):
    def tup(x):
        return tuple(tup(i) for i in x) if isinstance(x, list) else x
    django_env.setup()
    sqla_env.engine()
    inst = case.get("instance_data") or R.canonical_instance()
    inst = dict(inst, post_tags=[tuple(x) for x in inst["post_tags"]],
                post_labels=[tuple(x) for x in inst.get("post_labels", [])])
    django_env.load_relational(inst)
    sqla_env.load_relational(inst)
    g = R.Graph(inst)
    t = tup(case["term"])
    print(compare(g, case["root"], t, case["backend"])[:2])
    judge(ctx, g, "replay", case["root"], t, "judged")
