"""C10 - parsing any string terminates with an AST or one of the library's own errors.

Refuting events: parse() raises something that is not an ODataException (incl.
RecursionError), returns a non-node (M-parse contract), the same string gives different
outcomes on a fresh and on a long-lived lexer/parser pair (M-det), or the parse needs more
than 40 x tokens + 100 grammar steps (bounded progress instead of "terminates").
"""
import itertools
import re

from odata_query import exceptions
from odata_query.grammar import ODataLexer, ODataParser

from .. import findings
from ..gen import fullgen, terms as T
from ..gen.printer import to_text
from ..mon import contracts, steps
from ..ref.decode import fingerprint

RULE = ("strings: (1) every concatenation of k<=3 (quick) / k<=4 (thorough) atoms of a "
        "30-atom lexical alphabet, exhaustively; (2) token-level mutations (delete, insert, "
        "swap, duplicate, truncate, splice) of valid full-grammar filters; (3) random Unicode "
        "text; (4) long repetitive inputs up to 64 KB (paths with thousands of segments, "
        "operator chains, deep parentheses, not/minus chains, nested lists/calls/lambdas, "
        "long named-parameter lists). distinct = distinct input string; non-trivial = the "
        "lexer produced at least 2 tokens before the outcome")
RULE += (" " + 'Also: unterminated-literal lane run in a watched child process (first, check-pointed); case-folding spellings of every keyword (U+0130, U+0131, U+017F, U+212A); deep prefix followed by end of input inside 8 kinds of open bracket.')
RULE += (" " + 'Code-point sweep: every code point inside every quoted literal kind (4 frames, blocks bisected on failure) and single code points U+0000..U+30FF (thorough: BMP) between / next to tokens.')
ASSUMPTIONS = ["step bound 40 x tokens + 100 counts function starts in odata_query/grammar.py "
               "plus tokens pulled (LR parsing is linear in the token count)",
               "wall-clock watchdogs only ever yield inconclusive"]
EXHAUSTIVE = "all atom sequences of length <= 3 (quick) / <= 4 (thorough)"
SHARDS = {"quick": 14, "thorough": 16}
BUDGET_S = {"quick": 60, "thorough": 900}

ATOMS = ["a", "null", "'s'", "geography'P'", "6c0e37e3-e856-45ee-bd58-484b11882c67",
         "2020-01-01T10:00:00Z", "2020-01-01", "10:00:00", "duration'P1D'", "1.5", "1", "true",
         " add ", " mul ", "-", " and ", " or ", "not ", " eq ", " lt ", " in ", "any", "all",
         " ", "(", ")", ",", "/", ":", "=", "#"]

_TOK = re.compile(r"'(?:[^']|'')*'|\s+|[A-Za-z_][\w.]*|\d[\w.:+-]*|.", re.S)
INSERTS = ATOMS + ["x/any(y: y eq 1)", "f(", "my.f(a=1", "''", "'", "eq", "and", "1e", "T",
                   "duration'", "geography'", "(1,)", "(,)", "()", "not", "-1", "+", "all(",
                   "contains(a,'b')", "concat(", "\t", "\n", "\x00", "é", "😀"]


class State:
    pass


def classify(text, st, ctx, cls, deep=False):
    """Run one string through both instance pairs under all monitors; report events."""
    ctx.count("evaluations")
    ctx.cls(cls)
    outs = []
    ntok_seen = 0
    for which in ("fresh", "shared"):
        if which == "fresh":
            lexer, parser = ODataLexer(), ODataParser()
        else:
            lexer, parser = st.lexer, st.parser
        ntok = [0]
        bound = 40 * (len(text) + 1) + 100   # refined to tokens below; hard online stop
        st.mon.reset(bound)
        try:
            node = parser.parse(steps.counted_tokens(lexer.tokenize(text), ntok))
            fp = fingerprint(node) if deep else None
            try:
                key = ("ok", fingerprint(node)[0])
            except Exception as e:  # non-dataclass garbage
                key = ("ok", repr(node)[:100])
            out = key
        except exceptions.ODataException as e:
            out = ("lib", type(e).__name__)
        except contracts.MonitorViolation as e:
            out = ("monitor", str(e)[:300])
        except steps.StepBoundExceeded as e:
            out = ("steps", str(e))
        except RecursionError as e:
            out = ("foreign", "RecursionError")
        except Exception as e:
            out = ("foreign", type(e).__name__, str(e)[:200])
        used = st.mon.steps + ntok[0]
        st.mon.reset(None)
        ntok_seen = max(ntok_seen, ntok[0])
        if out[0] in ("ok", "lib") and used > 40 * ntok[0] + 100:
            out = ("steps", "%d steps for %d tokens" % (used, ntok[0]))
        if ntok[0]:
            ctx.note_max("max_steps_per_token_x100", int(100 * used / max(1, ntok[0])))
        outs.append(out)
    if ntok_seen >= 2:
        ctx.seen(text)
    ctx.note_max("max_input_len", len(text))
    ctx.cls("outcome:" + ":".join(str(x) for x in outs[0][:2] if x is not None)
            if outs[0][0] != "ok" else "outcome:node")
    bad = None
    if outs[0][0] not in ("ok", "lib"):
        bad = ("parse outcome is not node/library-error", outs[0])
    elif outs[1] != outs[0]:
        bad = ("outcome differs between fresh and long-lived instances", outs)
    if bad:
        keys = findings.text_triggers(text)
        ctx.fail({"text": text,
                  "gen": cls}, bad[0], expected="AST node or ODataException subclass, same "
                 "on every instance", observed=bad[1], keys=keys, cls=cls,
                 sig=[outs[0][:2], cls.split(":")[0]])
    return outs[0]


def mutate(rng, toks):
    toks = list(toks)
    for _ in range(rng.choice([1, 1, 1, 2, 3])):
        if not toks:
            toks = [rng.choice(INSERTS)]
        op = rng.randrange(7)
        i = rng.randrange(len(toks))
        if op == 0:
            del toks[i]
        elif op == 1:
            toks.insert(i, rng.choice(INSERTS))
        elif op == 2 and len(toks) > 1:
            j = rng.randrange(len(toks))
            toks[i], toks[j] = toks[j], toks[i]
        elif op == 3:
            toks.insert(i, toks[i])
        elif op == 4:
            toks = toks[:i]
        elif op == 5:
            toks[i] = rng.choice(INSERTS)
        else:
            j = rng.randrange(len(toks))
            lo, hi = min(i, j), max(i, j)
            toks = toks[:lo] + toks[hi:]
    return "".join(toks)


def long_inputs(rng, maxlen, big_path):
    """(class, text) pairs of long repetitive inputs, <= maxlen chars."""
    def cap(s):
        return s[:maxlen]
    n = maxlen
    yield "long:path", "/".join(["ab"] * big_path) + " eq 1"
    yield "long:path-lambda", "/".join(["ab"] * (big_path // 2)) + "/any(x: x/a/b/c eq 1)"
    yield "long:path-wide", "/".join(["s" * 127] * (n // 128 - 1)) + " eq 1"
    yield "long:or-chain", " or ".join(["a eq 1"] * (n // 10))
    yield "long:and-chain", " and ".join(["b"] * (n // 6))
    yield "long:add-chain", "a" + " add 1" * (n // 6 - 1) + " gt 0"
    yield "long:cmp-chain", " eq ".join(["a"] * (n // 5))
    yield "long:parens", "(" * (n // 2 - 2) + "a" + ")" * (n // 2 - 2)
    yield "long:parens-unbalanced", "(" * (n - 10) + "a"
    yield "long:close-parens", "a" + ")" * (n - 10)
    yield "long:not", "not " * (n // 4 - 2) + "a"
    yield "long:minus", "-" * (n - 10) + "a"
    yield "long:minus-ws", "- " * (n // 2 - 2) + "1"
    yield "long:list-flat", "a in (" + ", ".join(["1"] * (n // 3 - 4)) + ")"
    yield "long:list-nested", "(" * (n // 4) + "1" + ",)" * (n // 4)
    yield "long:call-nested", "tolower(" * (n // 9) + "a" + ")" * (n // 9)
    yield "long:call-unknown-nested", "f(" * (n // 3) + "a" + ")" * (n // 3)
    yield "long:lambda-nested", "".join("c/any(x%d: " % 1 for _ in range(n // 12)) + "true" + ")" * (n // 12)
    yield "long:named", "my.f(" + ", ".join("p%d=%d" % (i, i) for i in range(n // 9)) + ")"
    yield "long:args", "my.f(" + ", ".join(["a"] * (n // 3 - 4)) + ")"
    yield "long:string", "a eq '" + "x''" * (n // 3 - 4) + "'"
    yield "long:string-open", "a eq '" + "x" * (n - 10)
    yield "long:ident", "a" * 127 + "." + "b" * (n - 200)
    yield "long:digits", "a eq " + "9" * (n - 10)
    yield "long:decimal", "a eq 1." + "0" * (n - 20) + "e+" + "9" * 5
    yield "long:ws", "a" + " " * (n - 10) + "eq 1"
    yield "long:ws-op", "a" + " " * (n // 2 - 5) + "eq" + " " * (n // 2 - 5) + "1"
    yield "long:slashes", "a" + "/" * (n - 10)
    yield "long:duration", "duration'P" + "1" * (n - 20) + "D'"
    yield "long:garbage", "#" * 10 + "a" * (n - 20)
    yield "long:in-chain", "a" + " in (1,)" * (n // 9)
    # a deep, well-formed prefix immediately followed by a syntax error (the error path sees a
    # deep node on the parser stack)
    k = min(n // 8, 2500)
    deep = {"add": "1" + " add 1" * k, "and": "a eq 1" + " and a eq 1" * (k // 2),
            "not": "not " * k + "a", "path": "/".join(["ab"] * min(k, big_path)),
            "minus": "-" * k + "a", "list": "(" * k + "1" + ",)" * k,
            "call": "tolower(" * k + "a" + ")" * k}
    for name, prefix in deep.items():
        for sname, suffix in (("paren", " )"), ("operand", " b"), ("comma", ", x"), ("wrapped", ")) or c")):
            yield "long:deep-%s-then-%s" % (name, sname), prefix + suffix
        yield "long:deep-%s-in-parens-then-error" % name, "(" + prefix + ")) eq"
        # ... or followed by the END of the input while a bracket is still open
        for oname, opener in (("paren", "("), ("call", "tolower("), ("custom-call", "my.f(1, "),
                              ("named", "my.f(k="), ("list", "a in (1, "), ("lambda", "xs/any(y: "),
                              ("not-paren", "not ("), ("cmp-paren", "b eq (")):
            for ename, ender in (("eof", ""), ("ws", " "), ("op", " and"), ("comma", ",")):
                yield "long:deep-%s-open-%s-%s" % (name, oname, ename), opener + prefix + ender
        # ... or sitting, complete and valid, inside a call that is refused for another reason
        # (unknown name, wrong number of arguments): the refusal path sees the deep node
        for cname, frame in (("unknown", "nosuch(%s)"), ("unknown-2nd", "nosuch(1, %s)"), ("too-few", "concat(%s)"),
                             ("too-many", "contains(name, 'x', %s)"), ("too-many-1st", "length(%s, 1)"),
                             ("geo-unknown", "geo.nosuch(%s)"), ("nested-bad", "tolower(trim(%s, 1))"),
                             ("bad-in-lambda", "xs/any(y: nosuch(%s))"), ("bad-in-list", "a in (1, now(%s))")):
            yield "long:deep-%s-in-refused-call-%s" % (name, cname), frame % prefix
    yield "long:mixed", cap(" and ".join("(a%d/b/c add %d) mul -x lt f.g(%d, 'q''%d') or not y in (1, 2,)"
                                         % (i, i, i, i) for i in range(n // 70)))


def run(ctx):
    # first, and check-pointed: inputs that may keep the regular-expression engine busy for
    # ever would otherwise take the whole shard (and its observations) with them
    run_hang_lane(ctx)
    ctx.checkpoint()
    contracts.install_parse()
    st = State()
    st.lexer, st.parser = ODataLexer(), ODataParser()
    st.mon = steps.StepMonitor("odata_query/grammar.py")
    st.mon.start()
    try:
        _run(ctx, st)
    finally:
        st.mon.stop()
    for (qn, ln), c in st.mon.reach.items():
        ctx.cls("reach:%s@%d" % (qn, ln), c)
    contracts.flush_counts(ctx)


def _run(ctx, st):
    # (1) exhaustive atom sequences ----------------------------------------------------
    kmax = ctx.pick(3, 4)
    idx = 0
    for k in range(1, kmax + 1):
        for combo in itertools.product(ATOMS, repeat=k):
            idx += 1
            if not ctx.mine(idx):
                continue
            classify("".join(combo), st, ctx, "atoms:k%d" % k)
    classify("", st, ctx, "atoms:k0")
    ctx.count("exhaustive_complete")
    # (4) long inputs (before the random part so the budget cannot starve them) ------------
    rng = ctx.rng("long")
    sizes = ctx.pick([2000, 16000, 65536], [1000, 8000, 30000, 65536])
    cases = []
    for n in sizes:
        big_path = min(ctx.pick(1500, 3000), n // 3)
        cases.extend(long_inputs(rng, n, big_path))
    for i, (cls, text) in enumerate(cases):
        if ctx.mine(i):
            out = classify(text, st, ctx, cls, deep=True)
            if i % 37 == 0:
                ctx.sample({"class": cls, "len": len(text), "head": text[:60], "outcome": out})
    # (2) mutations of valid filters + (3) random unicode -----------------------------------
    rng = ctx.rng("mut")
    o = fullgen.Opts(kw_idents=True)
    n_mut = ctx.pick(1600, 28000)
    for i in range(n_mut):
        if ctx.out_of_time():
            break
        t = fullgen.gen_expr(rng, o, rng.randint(1, 5))
        text = to_text(t, rng.choice(["min", "full", "rand"]), rng=rng)
        if len(text) > 1500:
            continue
        out = classify(text, st, ctx, "valid")
        toks = _TOK.findall(text)
        for _ in range(4):
            m = mutate(rng, toks)
            out = classify(m, st, ctx, "mutant")
            if i % 400 == 0:
                ctx.sample({"valid": text[:120], "mutant": m[:120], "outcome": out})
    # (5a) characters that are not text for every codec: lone surrogates, non-characters, in
    # short and in long inputs, before / after / inside the place where lexing fails
    odd = ["\ud83d", "\udc00", "\ud800\ud800", "\ufffe", "\uffff", "\U0010ffff", "\x7f", "\x85", "\u2028"]
    tails = ["", " and price gt 0" * 6, " or name eq 'x'" * 30]
    heads = ["name eq \"a", "name eq 'a", "a eq 1 and # ", "a eq ", "contains(s, '", "my.f(k=", "", "x/any(y: y eq "]
    j = 0
    for h in heads:
        for o in odd:
            for tl in tails:
                for text in (h + o + tl, h + o + "\"" + tl, h + "x" + tl + o):
                    j += 1
                    if ctx.mine(j):
                        classify(text, st, ctx, "odd-codepoints")
    codepoint_sweep(ctx, st, ctx.pick(4096, 512), ctx.pick(0x3100, 0x10000))
    # (5c) string arguments that are hostile to whatever a function might feed them to:
    # regular expressions, format strings, numbers, dates, paths
    hostile = ["a{4294967295}", "a{4294967294}", "a{1,4294967296}", "(" * 600, "(" * 600 + ")" * 600, "[", "(?P<n>", "(?P<n>a)(?P<n>b)",
               "\\", "a**", "(a+)+$", "(?i)a", "\\1", "[z-a]", "\\p{L}", "{0}", "%s", "%(x)s", "%", "{", "}", "{x!r:>{y}}",
               "9" * 5000, "1e999999", "-" * 3000, "0000-00-00", "99999-99-99", "../../etc/passwd", "\x00", "a\nb",
               "'" * 1, "''", "P" + "9" * 400 + "D", "POINT(" + "1 " * 2000 + ")"]
    funcs1 = ["matchesPattern(title, %s)", "contains(title, %s)", "startswith(%s, title)", "indexof(title, %s) eq 1",
              "substring(%s, 1) eq 'a'", "concat(%s, %s) eq 'a'", "length(%s) eq 1", "tolower(%s) eq 'a'", "trim(%s) eq 'a'",
              "date(%s) eq 2020-01-01", "year(%s) eq 1", "round(%s) eq 1", "geo.length(%s) eq 1", "my.f(%s)", "title in (%s,)",
              "title eq %s", "x/any(y: matchesPattern(y, %s))"]
    j = 0
    for hs in hostile:
        q = "'" + hs.replace("'", "''") + "'"
        for f in funcs1:
            j += 1
            if ctx.mine(j):
                classify(f.replace("%s", q), st, ctx, "hostile-argument")
    # (5d) literal tokens the lexer's patterns accept although they denote nothing (or twice)
    oddlits = ["12:30::45", "12:30::45.5", "2021-02-30", "2021-00-00", "0000-01-01", "2021-02-30T10:00:00",
               "2021-04-31T05:00:07Z", "23:59:59.999999999999", "duration'P'", "duration'PT'", "duration'P1DT'",
               "duration'P99999999999D'", "duration'PT0.0000000000001S'", "1e999", "-1e999", "1e-999", "0e0",
               "00000000-0000-0000-0000-000000000000", "2021-01-01T10:00+23:59", "2021-01-01T10:00-23:59"]
    for k, lit in enumerate(oddlits):
        if ctx.mine(k):
            for v in (lit, "a eq " + lit, lit + " eq a", "a in (" + lit + ", " + lit + ")", "f.g(" + lit + ")",
                      "not (a lt " + lit + ")", "x/any(y: y eq " + lit + ")", "- " + lit):
                classify(v, st, ctx, "odd-literal")
    # (5b) constructs of the OData ABNF the library does not implement
    from .c20 import ABNF_UNSUPPORTED
    for k, text in enumerate(ABNF_UNSUPPORTED):
        if ctx.mine(k):
            for v in (text, "not (" + text + ")", "a eq 1 and " + text, text + " or b"):
                classify(v, st, ctx, "abnf-unsupported")
    # (5) non-ASCII characters that case-insensitive matching relates to keyword letters ------
    j = 0
    for base in _FOLD_TEXTS:
        for v in dict.fromkeys(fold_variants(base)):
            j += 1
            if ctx.mine(j):
                classify(v, st, ctx, "casefold")
    rng = ctx.rng("uni")
    alphabet = ("abcxyz019 '()/,:=-+.#\t\n\x00\\\"%_éß中😀’ʼ＇  "
                "TZPeE")
    for i in range(ctx.pick(1500, 30000)):
        if ctx.out_of_time():
            break
        if rng.random() < 0.5:
            s = "".join(rng.choice(alphabet) for _ in range(rng.randint(0, 40)))
        else:
            s = "".join(chr(rng.choice([rng.randrange(32, 127), rng.randrange(0, 0x3000),
                                        rng.randrange(0x1F300, 0x1F700)]))
                        for _ in range(rng.randint(1, 30)))
        classify(s, st, ctx, "unicode")


def _quiet_outcome(text):
    try:
        ODataParser().parse(ODataLexer().tokenize(text))
        return "ok"
    except exceptions.ODataException:
        return "ok"
    except RecursionError:
        return "foreign"
    except Exception:
        return "foreign"


def codepoint_sweep(ctx, st, block, single_upto):
    """Every Unicode code point (a) inside each quoted literal kind - plain string, geography,
    duration - `block` consecutive code points per literal (the quote itself left out), alone,
    as a comparison operand and as a function argument; a failing block is bisected to its
    shortest failing run; (b) on its own between and next to tokens (U+0000..single_upto)."""
    frames = ["%s", "a eq %s", "geo.length(%s) gt 1", "x/any(y: y eq %s) and b in (%s, 1)"]
    j = 0
    for start in range(0, 0x110000, block):
        body = "".join(chr(c) for c in range(start, min(start + block, 0x110000)) if c != 0x27)
        for prefix in ("", "geography", "duration", "GEOGRAPHY"):
            for fr in frames:
                j += 1
                if not ctx.mine(j):
                    continue
                ctx.count("sweep_literals")
                ctx.count("sweep_codepoints", len(body))
                mk = lambda b: fr.replace("%s", prefix + "'" + b + "'")
                if _quiet_outcome(mk(body)) != "ok":
                    pl = body
                    while len(pl) > 1:
                        h = len(pl) // 2
                        if _quiet_outcome(mk(pl[:h])) != "ok":
                            pl = pl[:h]
                        elif _quiet_outcome(mk(pl[h:])) != "ok":
                            pl = pl[h:]
                        else:
                            break
                    classify(mk(pl), st, ctx, "codepoint-in-literal")
                else:
                    classify(mk(body), st, ctx, "codepoint-in-literal")
    # (c) every code point that ANY notion of "digit" accepts (str.isdigit / isdecimal / isnumeric:
    # superscripts, circled and Ethiopic digits, fractions ...) in the places where the grammar or
    # a token action reads a number
    slots = ["geography'SRID=%s;POINT(1 2)'", "a eq geography'SRID=4326%s;POINT(1 2)'", "geography'srid=%s%s;P'", "duration'P%sD'",
             "duration'PT1%sS'", "a eq %s", "a eq 1%s", "a eq 1.%s", "a eq 1e%s", "a eq 202%s-01-01", "a eq 2020-01-01T0%s:00:00Z",
             "a eq 12:3%s:00", "a eq 0000000%s-0000-0000-0000-000000000000", "substring(s, %s) eq 'x'", "a/b%s eq 1", "a in (1, %s)",
             "a eq 2020-01-01T00:00:00.%sZ", "a eq 2020-01-01T00:00:00+0%s:00"]
    j = 0
    for c in range(0x110000):
        ch = chr(c)
        if not (ch.isdigit() or ch.isdecimal() or ch.isnumeric()):
            continue
        j += 1
        if not ctx.mine(j):
            continue
        for sl in slots:
            ctx.count("sweep_digit_slots")
            classify(sl.replace("%s", ch), st, ctx, "numeric-codepoint-in-digit-slot")
    for k, sl in enumerate(slots):
        if ctx.mine(k):
            for n in (4299, 4300, 4301, 5000, 20000):
                classify(sl.replace("%s", "9" * n), st, ctx, "long-digits-in-digit-slot")
                classify(sl.replace("%s", "0" * n + "1"), st, ctx, "long-digits-in-digit-slot")
    j = 0
    for c in range(0, single_upto):
        j += 1
        if not ctx.mine(j):
            continue
        ch = chr(c)
        for text in ("a" + ch + "eq 1", "a eq 1" + ch, "a eq " + ch + "1 and b", "f(a," + ch + "b)"):
            ctx.count("sweep_single")
            classify(text, st, ctx, "codepoint-between-tokens")


# characters that Python's re.I / str.upper / str.lower / str.casefold relate to ASCII
# letters although they are not ASCII: a lexer that is case-insensitive by regex flag sees
# them as spellings of its keywords, later string operations may not
_FOLD = {"i": "\u0130\u0131", "I": "\u0130\u0131", "s": "\u017f", "S": "\u017f",
         "k": "\u212a", "K": "\u212a"}
_FOLD_TEXTS = [
    "1 add 2 eq 3", "1 sub 2 eq 3", "1 mul 2 eq 3", "7 div 2 eq 3", "7 mod 2 eq 1", "a ne 1",
    "a lt 1", "a le 1", "a gt 1", "a ge 1", "a in (1,2)", "a eq 1 and b eq 2", "a eq 1 or b eq 2",
    "not a", "a eq null", "a eq true", "a eq false", "x/any(y: y eq 1)", "x/all(y: y eq 1)",
    "x/any()", "a eq duration'P1DT2H3M4S'", "geography'POINT(1 2)' eq a", "contains(s,'k')",
    "startswith(s,'k')", "endswith(s, 'k')", "substring(s,1) eq 'k'", "indexof(s,'i') eq 1",
    "tolower(s) eq 'k'", "toupper(s) eq 'K'", "trim(s) eq 's'", "concat(s,'k') eq 'sk'",
    "length(s) eq 1", "year(d) eq 1", "minute(d) eq 1", "second(d) eq 1",
    "fractionalseconds(d) eq 1", "totalseconds(x) eq 1", "date(d) eq 2020-01-01",
    "time(d) eq 10:00:00", "now() gt d", "mindatetime() lt d", "maxdatetime() gt d",
    "totaloffsetminutes(d) eq 1", "round(f) eq 1", "floor(f) eq 1", "ceiling(f) eq 1",
    "geo.distance(a,b) eq 1", "geo.intersects(a,b)", "geo.length(a) eq 1", "hassubset(a,b)",
    "hassubsequence(a,b)", "matchesPattern(s,'k')", "2020-01-01T10:00:00Z eq d",
    "kind eq 'k' and is_k or skis in ('s',)", "my.ns.kiss(k=1, s='i')",
]


def fold_variants(text):
    pos = [i for i, ch in enumerate(text) if ch in _FOLD]
    for i in pos:
        for alt in _FOLD[text[i]]:
            yield text[:i] + alt + text[i + 1:]
    for pick in (0, -1):
        yield "".join(_FOLD[ch][pick] if ch in _FOLD else ch for ch in text)
    yield text.upper()
    yield text.swapcase()
    yield text.title()


HANG_CHILD = r"""
import sys, json, time
sys.path.insert(0, sys.argv[1])
from odata_query.grammar import ODataLexer, ODataParser
from odata_query import exceptions
cases = json.load(open(sys.argv[2]))
start = int(sys.argv[3])
for i in range(start, len(cases)):
    print("START %d" % i, flush=True)
    t0 = time.time()
    try:
        ODataParser().parse(ODataLexer().tokenize(cases[i]))
        out = "node"
    except exceptions.ODataException as e:
        out = "lib:" + type(e).__name__
    except RecursionError:
        out = "foreign:RecursionError"
    except Exception as e:
        out = "foreign:" + type(e).__name__
    print("END %d %s %.3f" % (i, out, time.time() - t0), flush=True)
"""


def hang_cases():
    """Quoted literals that never close (and close late): matching them must fail fast.
    Time spent inside the regular-expression engine is invisible to the step monitor, so
    these run in a child process that the parent watches."""
    openers = ["geography'", "a eq geography'", "geo.intersects(area, geography'", "duration'",
               "a eq duration'", "'", "a eq '", "contains(s, '", "x in ('a', '"]
    bodies = ["SRID=4326;POLYGON((0 0, 10 0, 10 10, 0 10, 0 0))", "x" * 30, "x" * 48, "x" * 400,
              "a b " * 16, "P1Y2M3DT4H5M6S" * 4, "1" * 40 + "D", "''" * 12 + "y" * 32,
              "(" * 40, "%_\\" * 12, "\u00e9" * 40, " " * 50]
    enders = ["", ")", " eq 1", "\n"]
    out = []
    for o in openers:
        for b in bodies:
            for e in enders:
                out.append(o + b + e)
    return out


def run_hang_lane(ctx, per_case_s=20.0, confirm_s=30.0):
    import subprocess
    import sys
    import tempfile
    import os
    import json
    import select
    cases = hang_cases()
    mine = [c for i, c in enumerate(cases) if ctx.mine(i)]
    if not mine:
        return
    repo = os.environ.get("VERIF_REPO", "/repo")
    d = tempfile.mkdtemp(prefix="vpmon_c10_")
    try:
        cf = os.path.join(d, "cases.json")
        json.dump(mine, open(cf, "w"))
        pos = 0
        confirmed_hangs = []
        while pos < len(mine):
            p = subprocess.Popen([sys.executable, "-c", HANG_CHILD, repo, cf, str(pos)],
                                 stdout=subprocess.PIPE, stderr=subprocess.DEVNULL, text=True)
            current, started = None, None
            stalled = False
            import time as _t
            while True:
                r, _, _ = select.select([p.stdout], [], [], 1.0)
                if r:
                    line = p.stdout.readline()
                    if not line:
                        break
                    parts = line.split()
                    if parts[0] == "START":
                        current, started = int(parts[1]), _t.time()
                    elif parts[0] == "END":
                        i, out = int(parts[1]), parts[2]
                        ctx.count("evaluations")
                        ctx.count("unterminated_literal_cases")
                        ctx.cls("hang-lane")
                        ctx.seen(["hang", mine[i]])
                        ctx.note_max("slowest_unterminated_literal_ms", int(float(parts[3]) * 1000))
                        if out.startswith("foreign"):
                            ctx.fail({"text": mine[i], "gen": "hang-lane"},
                                     "parse outcome is not node/library-error", observed=out,
                                     cls="hang-lane", sig=["hang-foreign", out])
                        pos = i + 1
                        current = None
                elif current is not None and _t.time() - started > per_case_s:
                    stalled = True
                    break
                elif p.poll() is not None and not r:
                    break
            if stalled:
                p.kill()
                p.wait()
                text = mine[current]
                # confirm on its own, from a fresh process, with a longer limit
                single = os.path.join(d, "single.json")
                json.dump([text], open(single, "w"))
                # the verdict is taken on the CPU time the child has used, not on wall-clock time:
                # on a loaded machine a starved child is waited for, not accused
                q = subprocess.Popen([sys.executable, "-c", HANG_CHILD, repo, single, "0"],
                                     stdout=subprocess.DEVNULL, stderr=subprocess.DEVNULL)
                w0, verdict = _t.time(), None
                while verdict is None:
                    try:
                        q.wait(timeout=1.0)
                        verdict = "finished"
                    except subprocess.TimeoutExpired:
                        try:
                            f = open("/proc/%d/stat" % q.pid).read().rsplit(")", 1)[1].split()
                            cpu = (int(f[11]) + int(f[12])) / float(os.sysconf("SC_CLK_TCK"))
                        except Exception:
                            cpu = _t.time() - w0
                        if cpu >= confirm_s:
                            verdict = "hang"
                        elif _t.time() - w0 > 20 * confirm_s:
                            verdict = "starved"
                if verdict != "finished":
                    q.kill()
                    q.wait()
                if verdict == "finished":
                    ctx.count("slow_case_not_confirmed")
                elif verdict == "starved":
                    ctx.mark_inconclusive("hang-lane: confirmation child got less than %.0f s of CPU in %.0f s" % (confirm_s, 20 * confirm_s))
                else:
                    ctx.count("evaluations")
                    ctx.fail({"text": text, "gen": "hang-lane", "length": len(text)},
                             "parse does not terminate within a bound proportional to the input "
                             "(%d characters: no outcome after %.0f s of CPU time, in a fresh process; "
                             "the slowest other case of this lane took milliseconds)"
                             % (len(text), confirm_s),
                             expected="an outcome within milliseconds", observed="still running",
                             cls="hang-lane", sig=["hang", text[:12]])
                    ctx.checkpoint()
                    confirmed_hangs.append(text)
                pos = current + 1
                if len(confirmed_hangs) >= 2:
                    ctx.count("hang_lane_abandoned_after_two_confirmed")
                    break
            else:
                p.wait()
                if pos < len(mine) and current is None and p.returncode not in (0, None):
                    ctx.mark_inconclusive("hang-lane child exited with %s" % p.returncode)
                    break
                if pos >= len(mine):
                    break
    finally:
        import shutil
        shutil.rmtree(d, ignore_errors=True)


def requirements(m):
    out = []
    c = m["counters"]
    if c.get("unterminated_literal_cases", 0) < 100:
        out.append("fewer than 100 unterminated-literal cases finished")
    if not m["classes"].get("casefold"):
        out.append("case-folding spellings never exercised")
    if c.get("M-parse", 0) == 0:
        out.append("M-parse contract never evaluated (parse never returned)")
    reach = [k for k in m["classes"] if k.startswith("reach:ODataParser.")]
    if len(reach) < 25:
        out.append("only %d grammar actions reached" % len(reach))
    need = ["outcome:node", "outcome:lib:ParsingException", "outcome:lib:TokenizingException",
            "outcome:lib:UnknownFunctionException", "outcome:lib:ArgumentCountException"]
    for n in need:
        if not m["classes"].get(n):
            out.append("outcome class never observed: " + n)
    return out


def replay(ctx, case):
    if case.get("gen") == "hang-lane":
        import json
        import os
        import subprocess
        import sys
        import tempfile
        d = tempfile.mkdtemp(prefix="vpmon_c10r_")
        try:
            f = os.path.join(d, "c.json")
            json.dump([case["text"]], open(f, "w"))
            try:
                r = subprocess.run([sys.executable, "-c", HANG_CHILD, os.environ.get("VERIF_REPO", "/repo"), f, "0"],
                                   capture_output=True, text=True, timeout=30)
                print(r.stdout.strip())
            except subprocess.TimeoutExpired:
                ctx.fail(case, "parse does not terminate within 30 s", observed="still running")
        finally:
            import shutil
            shutil.rmtree(d, ignore_errors=True)
        return
    st = State()
    st.lexer, st.parser = ODataLexer(), ODataParser()
    st.mon = steps.StepMonitor("odata_query/grammar.py")
    st.mon.start()
    contracts.install_parse()
    try:
        print("outcome:", classify(case["text"], st, ctx, "replay"))
    finally:
        st.mon.stop()
