"""Shared driver of the row-level semantic checks (C01 raw SQLite, C02 Django, C03
SQLAlchemy): typed filter -> adversarial rows -> ids selected by the real backend vs the
reference evaluator (UNSPEC rows excluded)."""
from .. import drive
from ..gen import rows as R, scalar, terms as T
from ..gen.printer import to_text
from ..ref.odata_eval import Evaluator, UNSPEC
from ..ref.types import welltyped, static_type
from ..shrink import shrink


class BackendError(Exception):
    """The backend raised for a filter of its supported fragment."""

    def __init__(self, kind, detail):
        super().__init__("%s: %s" % (kind, detail))
        self.kind, self.detail = kind, detail


def expected(t, rows, like_fold=True):
    """-> (ids that are TRUE, ids that are UNSPEC, {id: flags touched while evaluating it})"""
    ev = Evaluator(like_ascii_fold=like_fold)
    true_ids, unspec_ids, flags = [], [], {}
    for r in rows:
        ev.flags = set()
        v = ev.truth(t, r)
        flags[r["id"]] = ev.flags
        if v is UNSPEC:
            unspec_ids.append(r["id"])
        elif v is True:
            true_ids.append(r["id"])
    return true_ids, unspec_ids, flags


def schema_of(name):
    t = dict(scalar.SCHEMA, **scalar.EXTRA_SCHEMA).get(name)
    return "float" if t == "decimal" else t


def typed_ok(t):
    sch = {k: ("float" if v == "decimal" else v) for k, v in dict(scalar.SCHEMA, **scalar.EXTRA_SCHEMA).items()}
    return welltyped(t, schema_of) and static_type(t, sch) == "bool"


def compare(t, rows, select, like_fold=True):
    """-> (problem or None, detail dict, flags, nontrivial)"""
    exp, unspec, rowflags = expected(t, rows, like_fold)
    flags = set()
    try:
        got = select(to_text(t), rows)
    except BackendError as e:
        for f in rowflags.values():
            flags |= f
        return ("backend-" + e.kind, {"error": e.detail}, flags, False)
    us = set(unspec)
    got_j = sorted(i for i in got if i not in us)
    extra_dups = len(got) - len(set(got))
    nontrivial = 0 < len(exp) < len(rows) - len(us)
    if extra_dups:
        return ("duplicate-rows", {"got": got[:30]}, flags, nontrivial)
    if got_j != sorted(exp):
        # finding triggers are decided on the rows that actually mismatch
        for i in set(got_j) ^ set(exp):
            flags |= rowflags.get(i, set())
        wrong_in = sorted(set(got_j) - set(exp))[:5]
        missing = sorted(set(exp) - set(got_j))[:5]
        by_id = {r["id"]: r for r in rows}
        return ("rows-differ", {"selected_but_not_true": [by_id[i] for i in wrong_in],
                                "true_but_not_selected": [by_id[i] for i in missing],
                                "n_expected": len(exp), "n_got": len(got_j),
                                "unspec_rows": len(us)}, flags, nontrivial)
    return (None, {"n_expected": len(exp), "unspec_rows": len(us)}, flags, nontrivial)


def case_twin(t):
    """The same filter with the letter case of its string-literal contents flipped: a
    different filter (string comparison is case sensitive) whose text equals the original
    one ignoring case - exercises state keyed too coarsely across calls."""
    def f(x):
        if x[0] == "lit" and x[1] == "str" and x[2].upper() != x[2]:
            return ("lit", "str", x[2].upper())
        return x
    return T.map_term(f, t)


_INT_SHIFT = {"-3": "-1", "-1": "0", "0": "1", "1": "2", "2": "7", "7": "-3"}


def literal_twin(t, profile):
    """Same skeleton, other literal values (integers shifted inside the pool, strings
    replaced by another pool string): a structure-keyed cache that ignores values shows up
    as wrong rows for the twin."""
    pool = list(profile.str_lits) if profile is not None else list(scalar.STR_LITS)

    def f(x):
        if x[0] == "lit" and x[1] == "int" and x[2] in _INT_SHIFT:
            return ("lit", "int", _INT_SHIFT[x[2]])
        if x[0] == "lit" and x[1] == "str" and x[2] in pool and len(pool) > 1:
            return ("lit", "str", pool[(pool.index(x[2]) + 3) % len(pool)])
        return x
    return T.map_term(f, t)


def judge(ctx, t, rng, select, keys_fn, cls, like_fold=True, cap=400, extra_case=None,
          profile=None, twin=True, domain=None):
    if domain is not None:
        return _judge(ctx, t, rng, select, keys_fn, cls, like_fold, cap, extra_case, profile, domain=domain)
    ok = _judge(ctx, t, rng, select, keys_fn, cls, like_fold, cap, extra_case, profile)
    if ok and twin and ctx.counters.get("evaluations", 0) % 3 == 0:
        t2 = case_twin(t)
        if t2 != t:
            ctx.count("case_twins")
            _judge(ctx, t2, rng, select, keys_fn, cls + ":case-twin", like_fold, cap, extra_case, None)
    if ok and twin and ctx.counters.get("evaluations", 0) % 3 == 1:
        t3 = literal_twin(t, profile)
        if t3 != t and (profile is None or scalar.conforms(t3, profile)):
            ctx.count("literal_twins")
            _judge(ctx, t3, rng, select, keys_fn, cls + ":literal-twin", like_fold, cap, extra_case, profile)
    return ok


def _judge(ctx, t, rng, select, keys_fn, cls, like_fold=True, cap=400, extra_case=None,
           profile=None, domain=None):
    ctx.count("evaluations")
    cols = scalar.columns_of(t)
    rows = R.rows_for(cols, rng, cap, domain)
    prob, detail, flags, nontrivial = compare(t, rows, select, like_fold)
    ctx.count("rows_compared", len(rows))
    ctx.count("unspec_rows_skipped", detail.get("unspec_rows", 0) if isinstance(detail, dict) else 0)
    if nontrivial:
        ctx.seen(to_text(t))
    else:
        ctx.count("trivial_filters")
    for k in T.kinds(t):
        ctx.cls("kind:" + k)
    if prob is None:
        return True
    sigp = prob

    def still(t2):
        rows2 = R.rows_for(scalar.columns_of(t2), rng, cap, domain)
        p2 = compare(t2, rows2, select, like_fold)[0]
        return p2 == sigp
    accept = typed_ok if profile is None else (lambda x: typed_ok(x) and scalar.conforms(x, profile))
    small = shrink(t, still, max_tries=120, accept=accept)
    if small is not t:
        rows2 = R.rows_for(scalar.columns_of(small), rng, cap, domain)
        p2, d2, f2, _ = compare(small, rows2, select, like_fold)
        if p2 == sigp:
            t, rows, prob, detail, flags = small, rows2, p2, d2, f2
    keys = keys_fn(t, flags, prob)
    case = {"filter": to_text(t), "term": t}
    if extra_case:
        case.update(extra_case(to_text(t)))
    ctx.fail(case, prob, expected="exactly the rows for which the filter is true",
             observed=detail, keys=keys, cls=cls, sig=[prob, sorted(keys), cls])
    return False


_M_INT = ["1", "-1", "2", "3", "9223372036854775807", "-9223372036854775807"]
_M_FLOAT = ["0.1", "0.2", "0.3", "0.5", "0.7", "1.0", "0.0", "2.0", "1e0"]


def _gen_machine(rng, typ, depth, small=False):
    if depth <= 0 or rng.random() < 0.2:
        if typ == "int":
            if rng.random() < 0.6:
                return T.ident(rng.choice(["a", "b", "c"]))
            return T.lit("int", rng.choice(["1", "2", "3", "7", "21"] if small else _M_INT))
        if rng.random() < 0.5:
            return T.ident("f")
        return T.lit("float", rng.choice(_M_FLOAT))
    op = rng.choice(["add", "add", "mul", "sub"])
    if typ == "float":
        # mixed arithmetic: whole sub-groups may be integer-typed (f add (b add c))
        lt, rt = rng.choice([("float", "float"), ("float", "float"), ("float", "int"), ("int", "float")])
        return ("bin", op, _gen_machine(rng, lt, depth - 1, True), _gen_machine(rng, rt, depth - 1, True))
    return ("bin", op, _gen_machine(rng, typ, depth - 1, small), _gen_machine(rng, typ, depth - 1, small))


def _short(v):
    if isinstance(v, int):
        return True
    r = repr(v)
    return "e" not in r and "n" not in r and len(r.replace("-", "").replace(".", "").lstrip("0")) <= 15


def machine_lane(ctx, rng, select, keys_fn, n, extra_case=None, profile=None, floats=True):
    """Arithmetic at the edges of the machine types (rows.BOUNDARY): the comparison value
    is one the source grouping really produces on some row, so that equality is sharp and a
    regrouped / reordered translation shows as a wrong row.  Rows on which the SOURCE
    grouping leaves Int64 (or mixes a huge integer with a double) are unspecified."""
    done = 0
    for _ in range(n * 4):
        if done >= n or ctx.out_of_time():
            break
        typ = "float" if floats and rng.random() < 0.5 else "int"
        e = _gen_machine(rng, typ, rng.randint(2, 3))
        cols = scalar.columns_of(e)
        if not cols:
            continue
        rows = R.rows_for(cols, rng, 150, R.BOUNDARY)
        ev = Evaluator()
        vals = [ev.ev(e, r) for r in rows]
        cands = [v for v in vals if v is not UNSPEC and v is not None and _short(v)]
        if not cands:
            continue
        v = rng.choice(cands)
        lit = T.lit("int", str(v)) if isinstance(v, int) else T.lit("float", repr(v))
        if rng.random() < 0.3:
            # ... or against an integer column / literal (a mul 1.0 eq a: Int64 op Double is
            # Double, so beyond 2**53 the product is NOT the integer)
            lit = _gen_machine(rng, "int", 0)
        t = ("cmp", rng.choice(["eq", "eq", "ne", "lt", "le", "gt", "ge"]), e, lit)
        if profile is not None and not scalar.conforms(t, profile):
            continue
        done += 1
        ctx.count("machine_number_filters")
        _judge(ctx, t, rng, select, keys_fn, "machine-numbers", True, 150, extra_case, profile,
               domain=R.BOUNDARY)
    return done


def grouping_grid_lane(ctx, rng, select, keys_fn, extra_case=None, profile=None, draws=2):
    """Every bracketing of 3- and 4-operand chains of ONE associative-looking operator (add, mul)
    x every int/float pattern of the operands, operand values where regrouping changes the
    double (0.1 0.2 0.3, 1e16 next to 1, 3 x 0.1), compared with the value the SOURCE grouping
    produces: a translation that flattens or regroups some kind pattern selects a wrong row."""
    import itertools
    fl = [T.lit("float", "0.1"), T.lit("float", "0.2"), T.lit("float", "0.3"), T.lit("float", "1e16"), T.ident("f"),
          T.lit("float", "0.7")]
    it = [T.I(1), T.I(3), T.ident("a"), T.ident("b"), T.I(7)]
    shapes = {3: [lambda o, x: ("bin", o, x[0], ("bin", o, x[1], x[2]))],
              4: [lambda o, x: ("bin", o, x[0], ("bin", o, x[1], ("bin", o, x[2], x[3]))),
                  lambda o, x: ("bin", o, ("bin", o, x[0], x[1]), ("bin", o, x[2], x[3])),
                  lambda o, x: ("bin", o, x[0], ("bin", o, ("bin", o, x[1], x[2]), x[3]))]}
    n = 0
    for op in ("add", "mul"):
        for k, mks in shapes.items():
            for si, mk in enumerate(mks):
                for pat in itertools.product("FI", repeat=k):
                    for d in range(draws):
                        n += 1
                        leaves = [rng.choice(fl) if c == "F" else rng.choice(it) for c in pat]
                        if not ctx.mine(n):
                            continue
                        e = mk(op, leaves)
                        cols = scalar.columns_of(e)
                        rows = R.rows_for(cols or ["a"], rng, 60, R.BOUNDARY)
                        ev = Evaluator()
                        vals = [ev.ev(e, r) for r in rows]
                        cands = [v for v in vals if v is not UNSPEC and v is not None and not isinstance(v, bool)
                                 and v == v and abs(v) < 1e300]
                        if not cands:
                            continue
                        v = rng.choice(cands)
                        lit = T.lit("int", str(v)) if isinstance(v, int) else T.lit("float", repr(v))
                        for cmp_ in ("eq", "gt"):
                            t = ("cmp", cmp_, e, lit)
                            if profile is not None and not scalar.conforms(t, profile):
                                continue
                            ctx.count("grouping_grid_filters")
                            ctx.cls("grouping-grid:%s:%d:%d:%s" % (op, k, si, "".join(pat)))
                            _judge(ctx, t, rng, select, keys_fn, "grouping-grid", True, 150, extra_case, profile,
                                   domain=R.BOUNDARY)
    return n


BRACKET_STRS = ["(", ")", "a(b", "c)", "((", "))", "'(", ")'", "(x)", "[", "]", ") or (", "\"(", "/*", "*/"]


def bracket_string_lane(ctx, rng, select, keys_fn, extra_case=None, profile=None):
    """Groups of groups (each sub-group needs brackets of its own, so the rendered text of the
    whole starts with `(` and ends with `)`) whose first and last sub-group hold string
    literals with surplus brackets, quotes, comment markers - every ordered PAIR of them, in
    boolean and in arithmetic nesting, rows that hold those very strings: a renderer that
    decides about brackets by looking at rendered text must not be fooled by string content."""
    s_, u_, a_, b_, c_ = (T.ident(x) for x in "suabc")
    dom = dict(R.DOMAIN, s=[None, "ab"] + BRACKET_STRS[:9], u=[None, "b"] + BRACKET_STRS[:9],
               a=[None, 0, 1], b=[None, 0, 1], c=[None, 1])
    n = 0
    for l1 in BRACKET_STRS:
        for l2 in BRACKET_STRS:
            L1, L2 = T.S(l1), T.S(l2)
            g_and = ("bool", "or", ("bool", "and", ("cmp", "eq", s_, L1), ("cmp", "gt", a_, T.I(0))),
                     ("bool", "and", ("cmp", "gt", b_, T.I(0)), ("cmp", "eq", u_, L2)))
            g_or = ("bool", "and", ("bool", "or", ("cmp", "eq", s_, L1), ("cmp", "gt", a_, T.I(0))),
                    ("bool", "or", ("cmp", "gt", b_, T.I(0)), ("cmp", "eq", u_, L2)))
            shapes = [("bool", "and", ("cmp", "eq", c_, T.I(1)), g_and), ("un", "not", g_or), ("un", "not", g_and),
                      ("bool", "or", ("cmp", "eq", c_, T.I(1)), g_or), ("bool", "and", g_and, ("cmp", "eq", c_, T.I(1))),
                      ("cmp", "eq", ("bin", "mul", ("bin", "add", T.call("length", T.call("concat", s_, L1)), a_),
                                     ("bin", "sub", b_, T.call("length", T.call("concat", u_, L2)))), T.I(-4)),
                      ("cmp", "eq", ("bool", "or", ("cmp", "eq", s_, L1), ("cmp", "eq", u_, L2)), T.lit("bool", "true"))]
            for t in shapes:
                n += 1
                if not ctx.mine(n):
                    continue
                if profile is not None and not scalar.conforms(t, profile):
                    continue
                ctx.count("bracket_string_filters")
                _judge(ctx, t, rng, select, keys_fn, "bracket-strings", True, 150, extra_case, profile, domain=dom)
    return n


def math_of_literal_lane(ctx, rng, select, keys_fn, extra_case=None, profile=None):
    """round / floor / ceiling applied DIRECTLY to number literals (midpoints with even and odd
    whole part, both signs, values next to a midpoint, whole numbers, huge values) in 6 operator
    shapes: a translation that folds the call itself must fold it with OData's rounding."""
    lits = ["0.5", "1.5", "2.5", "3.5", "4.5", "-0.5", "-1.5", "-2.5", "-3.5", "2.4999999", "2.5000001", "0.49999999999999994",
            "7.0", "-7.0", "1e16", "0.0", "-0.0", "1.0e0", "6.5", "-6.5", "100.5", "1e-9"]
    a, b, f = T.ident("a"), T.ident("b"), T.ident("f")
    n = 0
    for mf in ("round", "floor", "ceiling"):
        for l in lits:
            m = T.call(mf, T.lit("float", l))
            for t in (("cmp", "eq", a, m), ("cmp", "lt", m, f), ("cmp", "eq", ("bin", "mul", m, T.I(2)), b),
                      ("cmp", "ge", ("bin", "sub", a, m), T.I(0)), ("cmp", "ne", m, a),
                      ("cmp", "eq", ("bin", "add", m, T.lit("float", "0.5")), f)):
                if profile is not None and not scalar.conforms(t, profile):
                    continue
                n += 1
                if not ctx.mine(n):
                    continue
                ctx.count("math_of_literal_filters")
                _judge(ctx, t, rng, select, keys_fn, "math-of-literal", True, 200, extra_case, profile)
    return n


def neutral_boolean_lane(ctx, rng, select, keys_fn, extra_case=None, profile=None):
    """Bare true / false as operands of and / or next to groups of the OTHER connective, at
    every depth and side: dropping a neutral (or deciding) constant must not drop the brackets
    of what stays."""
    a, b, c = T.ident("a"), T.ident("b"), T.ident("c")
    X, Y, Z = ("cmp", "gt", a, T.I(0)), ("cmp", "gt", b, T.I(0)), ("cmp", "eq", c, T.I(2))
    tr, fa = T.lit("bool", "true"), T.lit("bool", "false")
    n = 0
    for k in (tr, fa):
        for inner_op, outer_op in (("or", "and"), ("and", "or")):
            g = ("bool", inner_op, X, Y)
            cells = [("bool", outer_op, ("bool", outer_op, k, g), Z), ("bool", outer_op, Z, ("bool", outer_op, k, g)),
                     ("bool", outer_op, ("bool", outer_op, g, k), Z), ("bool", outer_op, Z, ("bool", outer_op, g, k)),
                     ("bool", outer_op, ("bool", inner_op, k, g), Z), ("bool", outer_op, Z, ("bool", inner_op, g, k)),
                     ("un", "not", ("bool", outer_op, k, g)), ("un", "not", ("bool", inner_op, g, k)),
                     ("bool", outer_op, ("un", "not", ("bool", outer_op, k, g)), Z),
                     ("bool", inner_op, ("bool", outer_op, k, X), ("bool", outer_op, Y, k)),
                     ("cmp", "eq", ("bool", outer_op, k, g), tr), ("bool", outer_op, k, ("bool", outer_op, k, g))]
            for t in cells:
                if profile is not None and not scalar.conforms(t, profile):
                    continue
                n += 1
                if not ctx.mine(n):
                    continue
                ctx.count("neutral_boolean_filters")
                _judge(ctx, t, rng, select, keys_fn, "neutral-boolean", True, 200, extra_case, profile)
    return n


def interval_lane(ctx, rng, select, keys_fn, extra_case=None, profile=None):
    """The interval column against every duration literal of the pool (stored values and their
    neighbours one microsecond away, small and ~411 years), every comparator, both
    orientations, negated, in lists."""
    iv = T.ident("iv")
    n = 0
    lits = [T.lit("duration", x) for x in scalar.IV_LITS]
    for i, l in enumerate(lits):
        for op in ("eq", "ne", "lt", "le", "gt", "ge"):
            for t in (("cmp", op, iv, l), ("cmp", op, l, iv), ("un", "not", ("cmp", op, iv, l)),
                      ("cmp", "in", iv, T.lst(l, lits[(i + 5) % len(lits)])),
                      ("bool", "or", ("cmp", op, iv, l), ("cmp", "eq", iv, T.lit("null", "null")))):
                if profile is not None and not scalar.conforms(t, profile):
                    continue
                n += 1
                if not ctx.mine(n):
                    continue
                ctx.count("interval_filters")
                _judge(ctx, t, rng, select, keys_fn, "interval-column", True, 200, extra_case, profile)
    return n


def bool_operand_lane(ctx, rng, select, keys_fn, extra_case=None, profile=None):
    """eq / ne between boolean-valued operands of every kind - constant, column, comparison,
    and / or group, negation, boolean function - all ordered pairs."""
    a, b, fl = T.ident("a"), T.ident("b"), T.ident("flag")
    X, Y = ("cmp", "eq", a, T.I(1)), ("cmp", "gt", b, T.I(1))
    ops = [T.lit("bool", "true"), T.lit("bool", "false"), fl, X, ("bool", "or", X, Y), ("bool", "and", X, Y),
           ("un", "not", X), T.call("contains", T.ident("s"), T.S("a")), ("cmp", "in", a, T.lst(T.I(1), T.I(2))),
           ("un", "not", ("bool", "or", X, Y))]
    n = 0
    for l in ops:
        for r in ops:
            if l[0] in ("lit", "id") and r[0] in ("lit", "id"):
                continue
            for op in ("eq", "ne"):
                for t in (("cmp", op, l, r), ("un", "not", ("cmp", op, l, r))):
                    if profile is not None and not scalar.conforms(t, profile):
                        continue
                    n += 1
                    if not ctx.mine(n):
                        continue
                    ctx.count("bool_operand_filters")
                    _judge(ctx, t, rng, select, keys_fn, "bool-operands", True, 200, extra_case, profile)
    return n


def nullable_key_lane(ctx, rng, select, keys_fn, extra_case=None, kinds=None, null_items=False):
    """eq / ne between a NULLable column of every kind (GUID, date, string, integer, date-time, boolean) and a
    literal, either operand order, plain and under not / not-and / not-or / or: a backend may build the negated
    or the reversed comparison by another route than the plain one, and only rows holding NULL tell."""
    cols = [("g", "guid", scalar.GUID_LITS[0]), ("dd", "date", "2020-01-01"), ("s", "str", "ab"), ("a", "int", "1"),
            ("d", "datetime", "2020-01-01T00:00:00"), ("flag", "bool", "true")]
    other = ("cmp", "eq", T.ident("b"), T.I(1))
    n = 0
    for col, kind, val in cols:
        if kinds is not None and kind not in kinds:
            continue
        c, v = T.ident(col), T.lit(kind, val)
        atoms = []
        for op in ("ne", "eq"):
            atoms += [("cmp", op, c, v), ("cmp", op, v, c)]
        atoms += [("cmp", "in", c, T.lst(v)), ("cmp", "ne", c, ("lit", "null", "null")), ("cmp", "eq", c, ("lit", "null", "null"))]
        if null_items:
            # a null literal AMONG the items: membership is UNKNOWN for a value that equals no item, which
            # only a negation around it shows
            nul = ("lit", "null", "null")
            atoms += [("cmp", "in", c, T.lst(v, nul)), ("cmp", "in", c, T.lst(nul, v)), ("cmp", "in", c, T.lst(nul)),
                      ("cmp", "in", v, T.lst(c, nul))]
        for x in atoms:
            for t in (x, ("un", "not", x), ("un", "not", ("bool", "and", x, other)), ("un", "not", ("bool", "or", other, x)),
                      ("bool", "or", x, other), ("un", "not", ("un", "not", x)),
                      ("bool", "and", ("un", "not", x), ("un", "not", other))):
                n += 1
                if not ctx.mine(n):
                    continue
                ctx.count("nullable_key_filters")
                _judge(ctx, t, rng, select, keys_fn, "nullable-key:" + kind, True, 200, extra_case, None)
    return n


def in_list_shape_lane(ctx, rng, select, keys_fn, extra_case=None, profile=None):
    """in-lists whose items have a SHAPE a renderer may recognise - consecutive integers (any
    order, repeats), runs with one gap, two items, one item, halves - against operands that lie
    between the items (float / decimal columns, float arithmetic) as well as on them: membership
    is not an interval."""
    a, f, m = T.ident("a"), T.ident("f"), T.ident("m")
    lists = [(1, 2, 3), (0, 1, 2, 3), (3, 1, 2), (1, 2, 2, 3), (1, 3), (1, 2), (-1, 0, 1), (2, 3, 4, 5, 6, 7, 8), (1, 2, 3, 5),
             (-2, -1), (7,), (0, 1), (-3, -2, -1, 0, 1, 2, 3)]
    lefts = [f, a, ("bin", "div", a, T.lit("float", "2.0")), ("bin", "mul", a, T.lit("float", "0.5")),
             ("bin", "add", f, T.lit("float", "0.5")), m, ("bin", "sub", f, T.I(1))]
    n = 0
    for items in lists:
        for kind in ("int", "float"):
            lst = T.lst(*[T.I(i) if kind == "int" else T.lit("float", "%d.0" % i) for i in items])
            for l in lefts:
                e = ("cmp", "in", l, lst)
                for t in (e, ("un", "not", e), ("bool", "or", e, ("cmp", "eq", T.ident("c"), T.I(2)))):
                    if profile is not None and not scalar.conforms(t, profile):
                        continue
                    n += 1
                    if not ctx.mine(n):
                        continue
                    ctx.count("in_list_shape_filters")
                    _judge(ctx, t, rng, select, keys_fn, "in-list-shapes", True, 200, extra_case, profile)
    return n


def int_vs_decimal_lane(ctx, rng, select, keys_fn, extra_case=None, profile=None):
    """Integer-typed expressions (functions, columns, integer arithmetic) compared with
    NON-integral decimal literals that lie right next to values the rows hold, every comparator,
    both orientations: a translation that converts the literal to the other side's type
    truncates it."""
    s_, d_, a_ = T.ident("s"), T.ident("d"), T.ident("a")
    lefts = [(T.call("length", s_), ["1.5", "2.5", "0.5", "2.0", "1.999"]), (T.call("indexof", s_, T.S("b")), ["0.5", "1.5", "-0.5", "1.0"]),
             (T.call("year", d_), ["2019.5", "2020.5", "2020.0"]), (T.call("month", d_), ["6.5", "1.5", "12.5"]),
             (T.call("day", d_), ["1.5", "15.5", "31.5"]), (T.call("hour", d_), ["0.5", "12.5", "23.5"]),
             (T.call("minute", d_), ["30.5", "59.5"]), (a_, ["0.5", "1.5", "-0.5", "6.999", "7.0"]),
             (("bin", "add", a_, T.I(1)), ["1.5", "2.5"]), (("bin", "mul", a_, T.I(2)), ["2.5", "-1.5"]),
             (T.call("length", T.call("concat", s_, T.S("x"))), ["2.5", "3.5"])]
    n = 0
    for l, lits in lefts:
        for v in lits:
            lit = T.lit("float", v)
            for op in ("eq", "ne", "lt", "le", "gt", "ge"):
                for t in (("cmp", op, l, lit), ("cmp", op, lit, l), ("un", "not", ("cmp", op, l, lit))):
                    if profile is not None and not scalar.conforms(t, profile):
                        continue
                    n += 1
                    if not ctx.mine(n):
                        continue
                    ctx.count("int_vs_decimal_filters")
                    _judge(ctx, t, rng, select, keys_fn, "int-vs-decimal", True, 200, extra_case, profile)
            t = ("cmp", "in", l, T.lst(lit, T.lit("float", lits[0])))
            if profile is None or scalar.conforms(t, profile):
                n += 1
                if ctx.mine(n):
                    ctx.count("int_vs_decimal_filters")
                    _judge(ctx, t, rng, select, keys_fn, "int-vs-decimal", True, 200, extra_case, profile)
    return n


def big_list_lane(ctx, rng, select, keys_fn, n, extra_case=None, profile=None, sizes=(33, 257, 1001, 1500)):
    """Long in-lists as operands of and / or / not / eq, the values that decide the rows
    placed first, last or in the middle of the padding (a translation that chunks, sorts or
    truncates long lists must keep both the membership and the grouping)."""
    done = 0
    while done < n and not ctx.out_of_time():
        col, pool, pad0 = rng.choice([("a", [-3, -1, 0, 1, 2, 7], 1000), ("b", [-1, 0, 1, 2, 7], 5000)])
        size = rng.choice(sizes)
        hits = rng.sample(pool, rng.randint(1, 2))
        pad = [pad0 + i for i in range(size - len(hits))]
        where = rng.choice(["first", "last", "middle", "split"])
        if where == "first":
            vals = hits + pad
        elif where == "last":
            vals = pad + hits
        elif where == "middle":
            vals = pad[: len(pad) // 2] + hits + pad[len(pad) // 2:]
        else:
            vals = hits[:1] + pad + hits[1:]
        inl = ("cmp", "in", T.ident(col), ("list", tuple(T.lit("int", str(v)) for v in vals)))
        other_col = "b" if col == "a" else "a"
        sib = ("cmp", rng.choice(["eq", "gt", "le"]), T.ident(other_col), T.lit("int", rng.choice(["0", "1", "2"])))
        shape = rng.choice(["and-r", "and-l", "or-r", "or-l", "not", "not-and", "alone", "and-and"])
        t = {"and-r": ("bool", "and", sib, inl), "and-l": ("bool", "and", inl, sib),
             "or-r": ("bool", "or", sib, inl), "or-l": ("bool", "or", inl, sib),
             "not": ("un", "not", inl), "not-and": ("bool", "and", ("un", "not", inl), sib),
             "alone": inl,
             "and-and": ("bool", "and", ("bool", "and", sib, inl), ("cmp", "ne", T.ident("c"), T.lit("int", "7")))}[shape]
        if profile is not None and not scalar.conforms(t, profile):
            continue
        done += 1
        ctx.count("big_in_list_filters")
        ctx.cls("big-in-list:%d" % size)
        ctx.count("evaluations")
        rows = R.rows_for(["a", "b", "c"], rng, 150)
        prob, detail, flags, nontrivial = compare(t, rows, select)
        ctx.count("rows_compared", len(rows))
        if nontrivial:
            ctx.seen(["big-in", col, size, where, shape])
        if prob is not None:
            case = {"shape": shape, "column": col, "list_size": size, "deciding_values": hits,
                    "placed": where, "sibling": to_text(sib), "term": t}
            ctx.fail(case, prob, expected="exactly the rows for which the filter is true",
                     observed=detail, keys=keys_fn(t, flags, prob), cls="big-in-list",
                     sig=[prob, "big-in-list", shape])
    return done


def math_of_int_lane(ctx, rng, select, keys_fn, extra_case=None, profile=None):
    """round / floor / ceiling applied to integer-typed operands (functions, columns, literals,
    arithmetic) in every operator position - a translation that special-cases "already whole"
    must still hand back ONE operand."""
    inners = [T.call("indexof", T.ident("s"), T.S("b")), T.call("length", T.ident("s")),
              T.call("year", T.ident("d")), T.ident("a"), T.I(3), ("bin", "add", T.ident("a"), T.I(1)),
              T.call("indexof", T.ident("u"), T.ident("s"))]
    n = 0
    for mf in ("round", "floor", "ceiling"):
        for inner in inners:
            m = T.call(mf, inner)
            shapes = [("cmp", "eq", ("bin", "mul", m, T.I(2)), T.I(2)), ("cmp", "eq", ("bin", "mul", T.I(2), m), T.I(2)),
                      ("cmp", "eq", ("bin", "sub", T.ident("b"), m), T.I(0)), ("cmp", "eq", ("bin", "sub", m, T.ident("b")), T.I(0)),
                      ("cmp", "lt", ("bin", "add", m, m), T.I(4)), ("cmp", "eq", ("bin", "mul", ("bin", "add", m, T.I(1)), T.I(3)), T.I(6)),
                      ("cmp", "ge", ("bin", "mul", m, T.lit("float", "0.5")), T.lit("float", "0.5")), ("cmp", "eq", m, T.I(1))]
            for t in shapes:
                if profile is not None and not scalar.conforms(t, profile):
                    continue
                n += 1
                if not ctx.mine(n):
                    continue
                ctx.count("math_of_int_filters")
                _judge(ctx, t, rng, select, keys_fn, "math-of-int", True, 200, extra_case, profile)
    return n


def neg_stack_lane(ctx, rng, select, keys_fn, extra_case=None, profile=None, depth=8):
    """1..depth unary minus signs stacked on compound operands, in the operator positions where
    the operand needs its brackets (under mul/div/mod, right of sub) and at a comparison root -
    a renderer that cancels or merges sign pairs must still hand back ONE operand of the
    right sign."""
    a, b, c = T.ident("a"), T.ident("b"), T.ident("c")
    inners = [("bin", "add", a, b), ("bin", "sub", a, b), ("bin", "mul", a, b), ("bin", "div", a, T.I(2)),
              T.call("indexof", T.ident("s"), T.S("b")), a, T.I(3), ("bin", "mod", a, T.I(3))]
    n = 0
    for k in range(1, depth + 1):
        for inner in inners:
            x = inner
            for _ in range(k):
                x = ("un", "neg", x)
            shapes = [("cmp", "eq", ("bin", "mul", x, c), T.I(8)), ("cmp", "eq", ("bin", "mul", c, x), T.I(8)),
                      ("cmp", "eq", ("bin", "sub", T.I(4), x), T.I(2)), ("cmp", "lt", ("bin", "div", c, x), T.I(1)),
                      ("cmp", "eq", ("bin", "mod", x, T.I(3)), T.I(1)), ("cmp", "ge", x, T.I(1)),
                      ("cmp", "eq", ("bin", "add", x, x), T.I(2)), ("cmp", "eq", ("bin", "sub", x, c), T.I(0))]
            for t in shapes:
                if profile is not None and not scalar.conforms(t, profile):
                    continue
                n += 1
                if not ctx.mine(n):
                    continue
                ctx.count("neg_stack_filters")
                ctx.cls("neg-stack:%d" % k)
                _judge(ctx, t, rng, select, keys_fn, "neg-stack", True, 200, extra_case, profile)
    return n


def spelling_twin_lane(ctx, rng, select, keys_fn, extra_case=None, profile=None):
    """X and X', X or X' where X' is X with ONE number respelled in the other numeric type
    (2 <-> 2.0): equal by Python value, different by OData type - a translation that compares
    or caches sub-translations by value must keep both."""
    n = 0
    for col in ("a", "b"):
        for op in ("div", "add", "sub", "mul"):
            for i_, f_ in (("2", "2.0"), ("3", "3.0"), ("1", "1.0")):
                for cmp_, k in (("eq", T.I(1)), ("eq", T.lit("float", "1.5")), ("lt", T.I(1)), ("ge", T.lit("float", "0.5"))):
                    xi = ("cmp", cmp_, ("bin", op, T.ident(col), T.I(int(i_))), k)
                    xf = ("cmp", cmp_, ("bin", op, T.ident(col), T.lit("float", f_)), k)
                    for conn in ("and", "or"):
                        for l, r in ((xi, xf), (xf, xi)):
                            for t in (("bool", conn, l, r), ("bool", conn, ("cmp", "gt", T.ident("c"), T.I(0)), ("bool", conn, l, r)),
                                      ("bool", conn, l, ("un", "not", r))):
                                if profile is not None and not scalar.conforms(t, profile):
                                    continue
                                n += 1
                                if not ctx.mine(n):
                                    continue
                                ctx.count("spelling_twin_filters")
                                _judge(ctx, t, rng, select, keys_fn, "spelling-twin", True, 200, extra_case, profile)
    return n


def render_rows(rows):
    return [{k: (str(v) if v is not None and not isinstance(v, (int, float, str, bool)) else v)
             for k, v in r.items()} for r in rows]
