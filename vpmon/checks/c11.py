"""C11 - function calls are accepted iff name and argument count match the OData table.

Refuting events: the accept/raise decision, the exception class or its fields
(function_name / exp_min_args / exp_max_args / n_args_given) disagree with the reference
table (vpmon/ref/functable.py, written from the specification); the M-call monitor on
ODataParser._function_call saw a different (name, count) than was written; a custom
namespace call is rejected, or its arguments are reordered / dropped.
"""
from odata_query import exceptions

from .. import drive, findings
from ..gen import terms as T, fullgen
from ..gen.printer import to_text
from ..mon import contracts
from ..ref.decode import decode, norm_for_parse
from ..ref.functable import ARITY, expected_call

RULE = ("exhaustive matrix {33 built-in names + near misses (case variants, prefixes, "
        "suffixes, geo. added/removed, other namespaces)} x argument counts 0..5, argument "
        "kinds cycling through literal/path/arithmetic/comparison/nested call/list/lambda and "
        "each argument carrying a unique marker; custom namespaces with 0..5 positional and "
        "1..5 named parameters; each call embedded in 4 contexts. distinct = distinct filter "
        "text; non-trivial = every case (each is one cell of the matrix in one context)")
ASSUMPTIONS = ["reference arity table written from the OData 4.01 specification",
               "name matching is case-sensitive as in the specification's ABNF"]
EXHAUSTIVE = "(name x argument count 0..5 x context) matrix"
SHARDS = {"quick": 8, "thorough": 16}
BUDGET_S = {"quick": 40, "thorough": 300}


def near_misses():
    out = set()
    for name in ARITY:
        base = name.split(".")[-1]
        out.add(name.upper())
        out.add(name.capitalize())
        out.add(name[:-1])
        out.add(name + "x")
        out.add(name + "s")
        out.add(name + "_")
        out.add(name + "2")
        if name.startswith("geo."):
            out.add(base)
            out.add("Geo." + base)
            out.add("geo." + base.upper())
            out.add("geox." + base)
            out.add("geo.geo." + base)
        else:
            out.add("geo." + name)
        out.add("my." + base)
        out.add("odata." + base)
        out.add("a.b." + base)
    out.update(["f", "func", "cast", "isof", "has", "exists", "substringof", "replace",
                "geo.area", "geo", "lengthx", "to_lower", "toLower", "matchespattern",
                "MatchesPattern", "nOw", "max", "min", "x.y.z.w"])
    out = {n for n in out if n and n not in ARITY and not n[0].isdigit() and n[0] != "."}
    # spellings the lexer legitimately reads as something else than an identifier
    import re
    bad = re.compile(r"^(true|false|null|any|all|not|in|eq|ne|lt|le|gt|ge|and|or|add|sub|mul|div|mod)$", re.I)
    return sorted(n for n in out if not bad.match(n.split(".")[0]) and not bad.match(n))


def arg_of_kind(kind, marker):
    m = marker
    if kind == 0:
        return T.I(1000 + m)
    if kind == 1:
        return T.path("p%d" % m, "q")
    if kind == 2:
        return ("bin", "add", T.ident("u%d" % m), T.I(m))
    if kind == 3:
        return ("cmp", "eq", T.ident("w%d" % m), T.S("s%d" % m))
    if kind == 4:
        return T.call("tolower", T.ident("n%d" % m))
    if kind == 5:
        return T.lst(T.I(m), T.S("l%d" % m))
    if kind == 6:
        return ("lam", T.ident("coll%d" % m), "any", "v", ("cmp", "gt", T.path("v", "k"), T.I(m)))
    if kind == 7:
        return T.S("o'%d" % m)
    return T.lst(T.ident("single%d" % m))


N_KINDS = 9
CONTEXTS = ["alone", "cmp", "not", "arg"]


def embed(callt, ctxname):
    if ctxname == "alone":
        return callt
    if ctxname == "cmp":
        return ("cmp", "eq", callt, T.I(1))
    if ctxname == "not":
        return ("bool", "and", ("un", "not", callt), T.ident("z"))
    return T.call("my.wrap", T.ident("first"), callt)


def judge(ctx, name, args, ctxname, cls, trailing_comma=False):
    callt = ("call", name, tuple(args))
    t = embed(callt, ctxname)
    text = to_text(t)
    if trailing_comma:
        # the other spelling of a one-argument call: name(arg,)
        ct = to_text(callt)
        if len(args) != 1 or text.count(ct) != 1:
            return True
        text = text.replace(ct, ct[:-1] + ",)")
        cls = cls + ":trailing-comma"
    ctx.count("evaluations")
    ctx.seen(text)
    ctx.cls(cls)
    n = len(args)
    exp = expected_call(name, n)
    del contracts.CALL_LOG[:]
    out = drive.parse_ast(text)
    log = list(contracts.CALL_LOG)
    problems = []
    if exp[0] == "ok":
        if out[0] != "ok":
            problems.append("listed/custom call rejected")
        else:
            got = decode(out[1])
            if got != norm_for_parse(t):
                problems.append("arguments reordered, dropped or altered")
    elif exp[0] == "unknown":
        if out[0] != "lib" or out[1] != "UnknownFunctionException":
            problems.append("unlisted function not reported as UnknownFunctionException")
        elif getattr(out[2], "function_name", None) != exp[1]:
            problems.append("UnknownFunctionException.function_name wrong")
        elif not isinstance(out[2], exceptions.FunctionCallException):
            problems.append("exception is not a FunctionCallException")
    else:
        if out[0] != "lib" or out[1] != "ArgumentCountException":
            problems.append("wrong argument count not reported as ArgumentCountException")
        else:
            e = out[2]
            got = (getattr(e, "function_name", None), getattr(e, "exp_min_args", None),
                   getattr(e, "exp_max_args", None), getattr(e, "n_args_given", None))
            if got != exp[1:]:
                problems.append("ArgumentCountException fields %r != %r" % (got, exp[1:]))
    # M-call: the real _function_call must have been consulted for exactly this (name, n)
    mine = [ev for ev in log if ev[0] == name and ev[1] == n]
    if not mine:
        problems.append("M-call: _function_call never saw (%s, %d); saw %r" % (name, n, log[:4]))
    else:
        want = "ok" if exp[0] == "ok" else "raise"
        if mine[-1][2] != want:
            problems.append("M-call: decision %s, reference says %s" % (mine[-1][2], want))
    if problems:
        obs = out if out[0] != "ok" else ("ok", decode(out[1]))
        if out[0] not in ("ok",):
            obs = (out[0], out[1], str(out[2])[:200])
        ctx.fail({"name": name, "nargs": n, "context": ctxname, "text": text},
                 "; ".join(problems), expected=exp, observed=obs,
                 keys=findings.parse_triggers(t, text), cls=cls,
                 sig=[problems[0][:30], exp[0]])
    return not problems


def run(ctx):
    contracts.install_parse()
    contracts.install_function_call()
    names = [(n, "builtin") for n in sorted(ARITY)] + [(n, "near") for n in near_misses()]
    idx = 0
    for name, kindname in names:
        for n in range(0, 6):
            for ci, ctxname in enumerate(CONTEXTS):
                idx += 1
                if not ctx.mine(idx):
                    continue
                args = [arg_of_kind((idx + j) % N_KINDS, j + 1) for j in range(n)]
                ok = judge(ctx, name, args, ctxname, "%s:n%d" % (kindname, n))
                if n == 1:
                    judge(ctx, name, args, ctxname, "%s:n%d" % (kindname, n), trailing_comma=True)
                    # ... also with each kind of argument, lists included
                    for kind in range(N_KINDS):
                        judge(ctx, name, [arg_of_kind(kind, idx % 50)], ctxname,
                              "%s:n1-kind%d" % (kindname, kind), trailing_comma=True)
                if idx % 977 == 0:
                    ctx.sample({"name": name, "nargs": n, "context": ctxname,
                                "expected": expected_call(name, n), "ok": ok})
    # custom namespaces: positional 0..5 and named 1..5
    for name in ["my.func", "ns.f", "a.b.c", "odata.concat", "custom.length", "Geo.distance",
                 "geo2.length", "x.contains"]:
        for n in range(0, 6):
            for variant in range(N_KINDS):
                idx += 1
                if not ctx.mine(idx):
                    continue
                args = [arg_of_kind((variant + j) % N_KINDS, j + 1) for j in range(n)]
                judge(ctx, name, args, CONTEXTS[idx % 4], "custom:pos%d" % n)
                if n == 1:
                    for kind in range(N_KINDS):
                        judge(ctx, name, [arg_of_kind(kind, idx % 50)], CONTEXTS[idx % 4],
                              "custom:pos1-kind%d" % kind, trailing_comma=True)
                if n >= 1:
                    nargs = [("np", T.ident("k%d" % (j + 1)), a) for j, a in enumerate(args)]
                    judge(ctx, name, nargs, CONTEXTS[idx % 4], "custom:named%d" % n)
    # named parameters whose NAMES repeat: every sequence of 2..5 names over {a, b, ns.a} (a call
    # keeps each argument, in source order, whatever it is called), custom calls and built-ins
    import itertools
    pool = [T.ident("a"), T.ident("b"), ("id", "a", ("ns",))]
    for name in ["my.func", "a.b.c", "concat", "substring", "length", "now"]:
        for n in range(2, 6):
            for pat in itertools.product(range(3), repeat=n):
                if len(set(pat)) == n:
                    continue        # all distinct: covered above
                idx += 1
                if not ctx.mine(idx):
                    continue
                nargs = [("np", pool[k], arg_of_kind((idx + j) % N_KINDS, j + 1)) for j, k in enumerate(pat)]
                judge(ctx, name, nargs, CONTEXTS[idx % 4], "named-repeated:%d" % n)
    ctx.count("exhaustive_complete")
    # thorough: random argument shapes
    if ctx.thorough():
        rng = ctx.rng("rand")
        o = fullgen.Opts()
        allnames = [n for n, _ in names]
        for i in range(6000):
            if ctx.out_of_time():
                break
            name = rng.choice(allnames)
            n = rng.randint(0, 5)
            args = [fullgen.gen_expr(rng, o, rng.randint(0, 3)) for _ in range(n)]
            judge(ctx, name, args, rng.choice(CONTEXTS), "random-args")
    contracts.flush_counts(ctx)


def requirements(m):
    out = []
    if not m["counters"].get("M-call"):
        out.append("M-call monitor never evaluated")
    for k in ("builtin:n0", "builtin:n3", "near:n1", "custom:named5", "custom:pos0"):
        if not m["classes"].get(k):
            out.append("matrix class never exercised: " + k)
    return out


def replay(ctx, case):
    import re
    name, n, c = case["name"], case["nargs"], case["context"]
    out = drive.parse_ast(case["text"])
    print("text:", case["text"], "->", out[:2])
    exp = expected_call(name, n)
    ok = (exp[0] == "ok") == (out[0] == "ok")
    if not ok or out[0] == "foreign":
        ctx.fail(case, "decision differs from reference table", expected=exp, observed=out[:2])
