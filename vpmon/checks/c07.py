"""C07 - no filter string can inject SQL through the raw SQL dialects.

Non-interference monitor: for an accepted filter F, a string position p and a payload w,
the SQL token skeleton (string literals -> STR, quoted identifiers -> ID) of
visit(parse(F[p:=w])) must equal that of F[p:='x']; the text must tokenise; the payload
must sit inside one STR token.  Same for field spellings and ID tokens.  SQLite text is
additionally executed next to a canary table (executescript, so a smuggled statement would
run) and the selected rows are compared with a direct Python evaluation.
"""
import sqlite3

from odata_query.sql import AstToSqlVisitor
from odata_query.sql.athena import AstToAthenaSqlVisitor
from odata_query.sql.sqlite import AstToSqliteSqlVisitor

from .. import drive, findings
from ..gen import terms as T
from ..gen.printer import to_text
from ..mon import contracts
from ..ref import sql_lex

RULE = ("base filters with a string literal in every syntactic position (comparison operand "
        "left/right, in-list element, every argument of contains startswith endswith indexof "
        "substring concat tolower toupper trim length, alone and nested two deep) x payloads "
        "(quotes, comment markers, semicolons, backslashes, NUL, Unicode look-alike quotes, "
        "LIKE wildcards, long strings, random strings over that alphabet) x 3 dialects x alias "
        "absent/present; field spellings over Unicode word characters up to 128 chars. "
        "distinct = distinct (template, position, payload, dialect, alias); non-trivial = "
        "payload contains at least one SQL metacharacter")
RULE += (" " + "Also: long and mixed in-lists (2..1001 items of 8 literal kinds around the payload); payload dictionary harvested at run time from the translators' source; templates whose sibling argument carries quotes and SQL.")
RULE += (" Code-point sweep: every Unicode code point U+0000..U+10FFFF (surrogates included) sits inside a string literal in 12 non-pattern literal positions x 3 dialects, 4096 (quick) / 256 (thorough) consecutive code points per literal; a failing block is bisected to its shortest failing run.")
RULE += (" " + 'Function-table templates: every function of the OData table x every argument position as string position, plain and under not-or.')
ASSUMPTIONS = ["vpmon/ref/sql_lex.py implements SQL-92 lexical rules ('' and \"\" doubling, "
               "-- and /* */ comments)",
               "the table alias is developer input, not attacker input",
               "executed variant: SQLite 3.40 via executescript next to a canary table"]
SHARDS = {"quick": 12, "thorough": 16}
BUDGET_S = {"quick": 50, "thorough": 600}

DIALECTS = {"standard": AstToSqlVisitor, "sqlite": AstToSqliteSqlVisitor,
            "athena": AstToAthenaSqlVisitor}
HOLE = "\x00HOLE\x00"

PAYLOADS = ["'", "''", "o'x", "' OR 1=1 --", "'; DROP TABLE canary; --", "x' OR 'a'='a",
            "'); DELETE FROM canary; --", "/*", "*/", "/* x */", "--", "-- x", ";", "\\", "\\'",
            "\\\\'", "a\\", "\x00", "a\x00b'", "ʼ", "’", "＇", "′", "%", "_", "%'", "_'", "%%",
            "a%b", "a_b", "'%", "'||'", "' || (SELECT 1) || '", "\"", "\"a\"", "`", "$$", "?",
            ":x", "%s", "{0}", "\n", "\r\n'", "'\n--", "x" * 300, "'" * 50, "''" * 30 + "'",
            "é'ß", "中'文", "😀'", "", " ", "null", "NULL'", "a'" * 200, "x" * 260 + "' OR 1=1 --",
            "'" + "y" * 1000, "%" * 300 + "'", "{1}", "{2}", "{0}{1}{2}", "{}", "{1}' --", "%(1)s",
            "%(arg)s", "\\1", "\\g<1>", "$1", "$2", "{args_sql[1]}", "{arg_sql}", ":1", "@p1", "?1",
            # brackets of every kind, balanced and not (text-level scanners of the OUTPUT)
            "(", ")", "a(", "f(x", "c)", "((", "))", ")(", "(()", "[", "]", "{", "}", "a(b)c", "('", "')"]


def source_placeholders():
    """Placeholder spellings harvested at run time from the translators' own source
    ({name}, {0}, %(name)s, %s, :name, $1 ...): a template that is filled in several steps
    re-scans what it already inserted, so a literal spelling one of ITS placeholders is the
    input that matters - whatever the names are in the tree under test."""
    import glob
    import os
    import re as _re
    import odata_query
    root = os.path.dirname(odata_query.__file__)
    found = set()
    for f in glob.glob(os.path.join(root, "sql", "*.py")) + glob.glob(os.path.join(root, "*.py")):
        try:
            src = open(f, encoding="utf-8").read()
        except OSError:
            continue
        found.update(_re.findall(r"\{[A-Za-z_][\w\[\]\.]{0,30}\}", src))
        found.update(_re.findall(r"%\([A-Za-z_]\w{0,30}\)s", src))
    return sorted(found)[:60]


ALPHA = "'\"%_\\-;/* \nx\x00’ʼ()|="

SFUNCS1 = ["tolower", "toupper", "trim", "length"]


def S():
    return T.S(HOLE)


def templates():
    """(name, term with exactly one HOLE string literal, like_position?)"""
    out = []
    s, u = T.ident("s"), T.ident("u")
    out.append(("cmp-right", ("cmp", "eq", s, S()), False))
    out.append(("cmp-left", ("cmp", "ne", S(), s), False))
    out.append(("cmp-lt", ("cmp", "lt", s, S()), False))
    out.append(("in-first", ("cmp", "in", s, T.lst(S(), T.S("k"))), False))
    out.append(("in-last", ("cmp", "in", s, T.lst(T.S("k"), T.S("m"), S())), False))
    out.append(("in-single", ("cmp", "in", s, T.lst(S())), False))
    for f in ("contains", "startswith", "endswith"):
        out.append((f + "-pattern", T.call(f, s, S()), True))
        out.append((f + "-subject", T.call(f, S(), T.S("k")), False))
        out.append((f + "-pattern-eq", ("cmp", "eq", T.call(f, s, S()), T.lit("bool", "true")), True))
        out.append((f + "-nested-subject", T.call(f, T.call("tolower", S()), T.S("k")), False))
        out.append((f + "-nested-pattern", T.call(f, T.call("tolower", s),
                                                  T.call("concat", S(), T.S("k"))), False))
        out.append((f + "-pattern-tolower", T.call(f, s, T.call("tolower", S())), False))
    # long / mixed in-lists: the string sits behind (or in front of) many items of another
    # literal kind - a renderer that picks a strategy from the list's size or first item
    # must still quote every string item
    kinds = {"guid": lambda i: T.lit("guid", "6c0e37e3-e856-45ee-bd58-%012d" % i),
             "int": lambda i: T.I(i), "date": lambda i: T.lit("date", "2021-03-%02d" % (1 + i % 28)),
             "str": lambda i: T.S("k%d" % i), "float": lambda i: T.lit("float", "%d.5" % i),
             "datetime": lambda i: T.lit("datetime", "2021-03-04T05:%02d:07" % (i % 60)),
             "null": lambda i: T.lit("null", "null"), "bool": lambda i: T.lit("bool", "true")}
    for kind, mk in kinds.items():
        for n in (2, 33, 40, 130, 1001):
            if n == 1001 and kind not in ("guid", "str"):
                continue
            pad = [mk(i) for i in range(n)]
            out.append(("in-long-%s-%d-last" % (kind, n), ("cmp", "in", s, ("list", tuple(pad) + (S(),))), False))
            if n in (33, 1001):
                out.append(("in-long-%s-%d-first" % (kind, n), ("cmp", "in", s, ("list", (S(),) + tuple(pad))), False))
                out.append(("in-long-%s-%d-middle" % (kind, n),
                            ("cmp", "in", s, ("list", tuple(pad[: n // 2]) + (S(),) + tuple(pad[n // 2:]))), False))
    for f in ("contains", "startswith", "endswith"):
        # a list used as pattern is rendered through its repr(): the string stays inside one
        # literal but not verbatim, so only the token skeleton is judged ("embedded")
        out.append((f + "-list-pattern", T.call(f, T.call("trim", s), T.lst(S())), "embedded"))
        out.append((f + "-list-pattern2", T.call(f, T.S("lit"), T.lst(T.S("k"), S())), "embedded"))
        out.append((f + "-list-subject", T.call(f, T.lst(S(), T.S("k")), T.S("q")), False))
    for f in ("hassubset", "hassubsequence"):
        out.append((f + "-list-left-first", T.call(f, T.lst(S(), T.S("k")), T.lst(T.S("k"), T.S("m"))), False))
        out.append((f + "-list-left-last", T.call(f, T.lst(T.S("k"), S()), T.ident("tags")), False))
        out.append((f + "-list-right-first", T.call(f, T.ident("tags"), T.lst(S(), T.S("k"))), False))
        out.append((f + "-list-right-mixed", T.call(f, T.ident("tags"), T.lst(T.I(1), S(), T.I(2))), False))
        out.append((f + "-list-right-single", T.call(f, T.ident("tags"), T.lst(S())), False))
    out.append(("substring-list", ("cmp", "eq", T.call("length", T.call("substring", T.lst(S(), T.S("k"), T.S("m")), T.I(1))), T.I(2)), False))
    out.append(("custom-call-list", ("cmp", "eq", T.call("my.f", T.lst(S(), T.S("k")), T.S("z")), T.I(1)), False))
    out.append(("length-list", ("cmp", "eq", T.call("length", T.lst(S(), T.S("k"))), T.I(2)), False))
    out.append(("concat-lists", ("cmp", "eq", T.call("length", T.call("concat", T.lst(S()), T.lst(T.S("k")))), T.I(2)), False))
    out.append(("indexof-0", ("cmp", "ge", T.call("indexof", S(), T.S("k")), T.I(0)), False))
    out.append(("indexof-1", ("cmp", "ge", T.call("indexof", s, S()), T.I(0)), False))
    out.append(("substring-0", ("cmp", "eq", T.call("substring", S(), T.I(1)), u), False))
    out.append(("substring3-0", ("cmp", "eq", T.call("substring", S(), T.I(1), T.I(2)), u), False))
    out.append(("concat-0", ("cmp", "eq", T.call("concat", S(), u), s), False))
    out.append(("concat-1", ("cmp", "eq", T.call("concat", u, S()), s), False))
    out.append(("concat-nested", ("cmp", "eq", T.call("concat", T.call("concat", u, S()), T.S("z")), s), False))
    # the hole next to a sibling argument that carries quotes and SQL of its own: when one
    # argument's rendering is pasted into another's (multi-step template filling), the
    # sibling's text leaves its literal
    host = T.S("', s) >= 0 OR 1=1 OR INSTR('")
    host2 = T.S("q' OR 'a'='a")
    for hname, h in (("host", host), ("host2", host2)):
        out.append(("indexof-hole-%s" % hname, ("cmp", "ge", T.call("indexof", S(), h), T.I(0)), False))
        out.append(("indexof-%s-hole" % hname, ("cmp", "ge", T.call("indexof", h, S()), T.I(0)), False))
        out.append(("concat-hole-%s" % hname, ("cmp", "eq", T.call("concat", S(), h), s), False))
        out.append(("concat-%s-hole" % hname, ("cmp", "eq", T.call("concat", h, S()), s), False))
        out.append(("substring-hole-len-%s" % hname,
                    ("cmp", "eq", T.call("substring", S(), T.call("length", h)), u), False))
        out.append(("substring3-hole-idx-%s" % hname,
                    ("cmp", "eq", T.call("substring", S(), T.I(1), T.call("indexof", h, T.S("x"))), u), False))
        out.append(("cmp-hole-and-%s" % hname, ("bool", "and", ("cmp", "eq", s, S()), ("cmp", "ne", u, h)), False))
        for f in ("contains", "startswith", "endswith"):
            out.append(("%s-hole-%s" % (f, hname), T.call(f, S(), h), False))
    # EVERY function of the OData table x every argument position, the other arguments a field: whatever a
    # dialect accepts today or starts to accept tomorrow (a refusal is fine) keeps the string inside one literal
    from ..ref.functable import ARITY, RETURNS
    for f in sorted(ARITY):
        for nargs in range(max(1, ARITY[f][0]), ARITY[f][1] + 1):
            for pos in range(nargs):
                args = [S() if i == pos else (s if i == 0 else (T.I(1) if f == "substring" else u)) for i in range(nargs)]
                c = T.call(f, *args)
                t = c if RETURNS.get(f) == "bool" else ("cmp", "eq", c, T.ident("a") if RETURNS.get(f) in ("int", "float") else u)
                out.append(("table-%s-%d-of-%d" % (f, pos, nargs), t, "embedded" if f in ("contains", "startswith", "endswith") and pos == 1 else False))
                if RETURNS.get(f) == "bool":
                    out.append(("table-%s-%d-of-%d-not" % (f, pos, nargs), ("un", "not", ("bool", "or", c, ("cmp", "eq", u, T.S("k")))), "embedded" if f in ("contains", "startswith", "endswith") and pos == 1 else False))
    for f in SFUNCS1:
        rhs = T.I(3) if f == "length" else u
        out.append((f + "-0", ("cmp", "eq", T.call(f, S()), rhs), False))
    out.append(("and-or", ("bool", "or", ("bool", "and", ("cmp", "eq", s, S()), ("cmp", "gt", T.ident("a"), T.I(1))),
                           ("un", "not", ("cmp", "eq", u, T.S("q")))), False))
    # the hole inside compound boolean structure (groups that themselves start and end with a
    # bracket), in the leading and in the trailing group
    a_, b_ = T.ident("a"), T.ident("b")
    g1 = ("bool", "or", ("cmp", "eq", s, S()), ("cmp", "gt", a_, T.I(0)))
    g2 = ("bool", "or", ("cmp", "gt", b_, T.I(0)), ("cmp", "eq", u, T.S("k")))
    g1c = ("bool", "or", ("cmp", "eq", s, T.S("k(")), ("cmp", "gt", a_, T.I(0)))
    g2h = ("bool", "or", ("cmp", "gt", b_, T.I(0)), ("cmp", "eq", u, S()))
    out.append(("not-and-of-ors-lead", ("un", "not", ("bool", "and", g1, g2)), False))
    out.append(("not-and-of-ors-trail", ("un", "not", ("bool", "and", g1c, g2h)), False))
    lead = ("bool", "or", ("bool", "and", ("cmp", "eq", s, S()), ("cmp", "gt", a_, T.I(0))),
            ("bool", "and", ("cmp", "gt", b_, T.I(0)), ("cmp", "eq", u, T.S("k"))))
    trail = ("bool", "or", ("bool", "and", ("cmp", "eq", s, T.S("k(")), ("cmp", "gt", a_, T.I(0))),
             ("bool", "and", ("cmp", "gt", b_, T.I(0)), ("cmp", "eq", u, S())))
    out.append(("and-of-ors-lead", ("bool", "and", ("cmp", "eq", a_, T.I(1)), lead), False))
    out.append(("and-of-ors-trail", ("bool", "and", ("cmp", "eq", a_, T.I(1)), trail), False))
    both = ("bool", "or", ("bool", "and", ("cmp", "eq", s, S()), ("cmp", "eq", a_, T.I(1))),
            ("bool", "and", ("cmp", "eq", b_, T.I(1)), ("cmp", "eq", u, T.S("z"))))
    out.append(("or-of-ands-then-and", ("bool", "and", both, ("cmp", "eq", T.ident("c"), T.I(1))), False))
    out.append(("not-startswith-and", ("un", "not", ("bool", "and", T.call("startswith", s, S()), ("cmp", "eq", a_, T.I(1)))), True))
    out.append(("arith-paren-hole", ("cmp", "eq", ("bin", "mul", ("bin", "add", T.call("length", S()), a_),
                                              ("bin", "sub", b_, T.call("length", T.S("k)")))), T.I(4)), False))
    out.append(("arith-cmp", ("cmp", "eq", T.call("length", T.call("concat", s, S())), ("bin", "add", T.ident("a"), T.I(1))), False))
    return out


def fill(t, payload):
    return T.map_term(lambda n: T.S(payload) if n == ("lit", "str", HOLE) else n, t)


def to_sql(text, dialect, alias):
    o = drive.parse_ast(text)
    if o[0] != "ok":
        return ("rejected", o[1])
    try:
        sql = DIALECTS[dialect](table_alias=alias).visit(o[1])
    except contracts.MonitorViolation as e:
        return ("monitor", str(e)[:300])
    except Exception as e:
        return ("raises", type(e).__name__)
    return ("sql", sql)


def subsequence(needle, hay):
    it = iter(hay)
    return all(c in it for c in needle)


_DB = None


def db():
    global _DB
    if _DB is None:
        _DB = sqlite3.connect(":memory:")
    return _DB


def execute_sqlite(ctx, case, where, rows, expect_ids):
    """Run the WHERE text with executescript next to a canary; compare selected ids."""
    con = db()
    cur = con.cursor()
    cur.executescript("DROP TABLE IF EXISTS t; DROP TABLE IF EXISTS canary; DROP TABLE IF EXISTS r;"
                      "CREATE TABLE t(id INTEGER PRIMARY KEY, a INTEGER, s TEXT, u TEXT);"
                      "CREATE TABLE canary(x INTEGER); INSERT INTO canary VALUES (1),(2),(3);")
    cur.executemany("INSERT INTO t VALUES (?,?,?,?)", rows)
    con.commit()
    ctx.count("executed_sqlite")
    try:
        cur.executescript("CREATE TABLE r AS SELECT id FROM t WHERE " + where + ";")
        got = sorted(r[0] for r in cur.execute("SELECT id FROM r"))
    except (sqlite3.Error, ValueError) as e:
        return "execution failed: %s" % str(e)[:160]
    try:
        canary = cur.execute("SELECT count(*), sum(x) FROM canary").fetchone()
    except sqlite3.Error as e:
        return "canary table damaged: %s" % e
    ctx.count("canary_checks")
    if canary != (3, 6):
        return "canary table changed: %r" % (canary,)
    if expect_ids is not None and got != expect_ids:
        return "rows differ: got %r expected %r" % (got, expect_ids)
    return None


def py_expect(tname, payload, rows):
    """Direct Python meaning for the simplest templates (None = not judged)."""
    if "\x00" in payload:
        return None   # SQLite C-string functions stop at NUL: outside what is judged
    def ci_differs(f):
        return any(f(r[2].lower(), payload.lower()) != f(r[2], payload) for r in rows if r[2] is not None)
    if tname == "cmp-right":
        return sorted(r[0] for r in rows if r[2] is not None and r[2] == payload)
    if tname == "in-single":
        return sorted(r[0] for r in rows if r[2] is not None and r[2] == payload)
    fn = {"contains-pattern": lambda s, w: w in s, "startswith-pattern": lambda s, w: s.startswith(w),
          "endswith-pattern": lambda s, w: s.endswith(w)}.get(tname)
    if fn:
        if ci_differs(fn) or any(ord(c) > 127 for c in payload):
            return None
        return sorted(r[0] for r in rows if r[2] is not None and fn(r[2], payload))
    return None


def judge(ctx, tname, tmpl, like_pos, payload, dialect, alias, cls):
    ctx.count("evaluations")
    ctx.cls("template:" + tname)
    ctx.cls("dialect:" + dialect)
    meta = any(c in payload for c in "'\"%_\\-;/*\x00") or any(ord(c) > 127 for c in payload)
    if meta:
        ctx.seen([tname, payload, dialect, alias])
    base_text = to_text(fill(tmpl, "x"))
    text = to_text(fill(tmpl, payload))
    base = to_sql(base_text, dialect, alias)
    out = to_sql(text, dialect, alias)
    case = {"template": tname, "payload": payload, "dialect": dialect, "alias": alias,
            "filter": text}
    keys = findings.sql_injection_triggers(tname, like_pos, payload)
    if base[0] != "sql":
        ctx.count("base_not_translated")
        return
    if out[0] != "sql":
        ctx.fail(case, "translation outcome depends on the string content", expected="sql text",
                 observed=out, keys=keys, cls=cls, sig=["outcome", out[0], out[1]])
        return
    sql = out[1]
    case["sql"] = sql
    try:
        btoks = sql_lex.lex(base[1])
    except sql_lex.SqlLexError as e:
        ctx.fail(dict(case, sql=base[1]), "baseline SQL does not tokenise", observed=str(e),
                 cls=cls, sig=["base-lex"])
        return
    try:
        toks = sql_lex.lex(sql)
    except sql_lex.SqlLexError as e:
        ctx.fail(case, "SQL text does not tokenise (unterminated literal)", observed=str(e),
                 keys=keys, cls=cls, sig=["lex", tname, dialect])
        return
    sk, bsk = sql_lex.skeleton(toks), sql_lex.skeleton(btoks)
    if sk != bsk:
        ctx.fail(case, "SQL token skeleton changes with the string content (injection)",
                 expected=bsk, observed=sk, keys=keys, cls=cls, sig=["skeleton", tname, dialect])
        return
    # the payload must be inside exactly one STR token
    vals = [sql_lex.str_value(t[1]) for t in toks if t[0] == "STR"]
    bvals = [sql_lex.str_value(t[1]) for t in btoks if t[0] == "STR"]
    changed = [i for i, (a, b) in enumerate(zip(vals, bvals)) if a != b]
    if payload != "x":
        if len(changed) > 1 and len({vals[i] for i in changed}) > 1:
            # (an argument a template uses twice shows up as two IDENTICAL literals: fine)
            ctx.fail(case, "string content spread over several SQL literals", observed=vals,
                     keys=keys, cls=cls, sig=["spread", tname])
            return
        if changed and like_pos != "embedded":
            v = vals[changed[0]]
            core = payload if not like_pos else "".join(c for c in payload if c not in "%_\\")
            ok = (v == payload) if not like_pos else subsequence(core, v)
            if not ok:
                ctx.fail(case, "string content altered inside its SQL literal", expected=payload,
                         observed=v, keys=findings.sql_value_triggers(tname, like_pos, payload),
                         cls=cls, sig=["altered", tname, dialect])
                return
    # executed variant (SQLite, no alias)
    if dialect == "sqlite" and alias is None and "\x00" in sql:
        ctx.count("exec_skipped_nul")   # Python's sqlite3 refuses NUL in SQL text (harness limit)
    elif dialect == "sqlite" and alias is None and "list" in tname:
        ctx.count("exec_skipped_list")   # list operands are not executable SQLite (row values)
    elif dialect == "sqlite" and alias is None:
        rows = [(1, 1, "x", "x"), (2, 2, payload, "k"), (3, 3, "a" + payload + "b", payload),
                (4, 4, None, None), (5, 5, "k", "xk"), (6, 6, payload + "k", "q")]
        exp = py_expect(tname, payload, rows)
        err = execute_sqlite(ctx, case, sql, rows, exp)
        if err:
            ctx.fail(case, "executed SQLite variant: " + err.split(":")[0], observed=err,
                     keys=findings.sql_value_triggers(tname, like_pos, payload) + keys,
                     cls=cls, sig=["exec", tname, err.split(":")[0]])


def judge_field(ctx, name, dialect, alias):
    ctx.count("evaluations")
    ctx.cls("field-spelling")
    ctx.seen(["field", name, dialect, alias])
    text = "contains(%s, 'v') and %s eq 'w' or %s in ('a', 'b')" % (name, name, name)
    base = to_sql(text.replace(name, "fld"), dialect, alias)
    out = to_sql(text, dialect, alias)
    case = {"field": name, "dialect": dialect, "alias": alias, "filter": text}
    if base[0] != "sql":
        return
    if out[0] != "sql":
        if out[0] == "rejected":
            ctx.count("field_rejected_by_parser")
            return
        ctx.fail(case, "translation outcome depends on the field spelling", observed=out,
                 cls="field", sig=["f-outcome"])
        return
    try:
        toks = sql_lex.lex(out[1])
    except sql_lex.SqlLexError as e:
        ctx.fail(dict(case, sql=out[1]), "SQL text does not tokenise", observed=str(e), cls="field",
                 sig=["f-lex"])
        return
    if sql_lex.skeleton(toks) != sql_lex.skeleton(sql_lex.lex(base[1])):
        ctx.fail(dict(case, sql=out[1]), "token skeleton changes with the field spelling",
                 cls="field", sig=["f-skel"])
        return
    ids = [sql_lex.id_value(t[1]) for t in toks if t[0] == "ID"]
    want = name if dialect != "athena" else None
    if want is not None and ids.count(want) != 3:
        ctx.fail(dict(case, sql=out[1]), "field name not inside exactly one quoted identifier "
                 "per reference", expected=want, observed=ids, cls="field", sig=["f-id"])


SWEEP_TEMPLATES = ("cmp-right", "in-first", "in-last", "in-single", "in-long-str-33-middle", "in-long-int-2-last",
                   "hassubset-list-right-first", "length-list", "concat-lists", "concat-0", "contains-subject",
                   "custom-call-list")


def sweep_anomaly(tmpl, payload, dialect, alias=None):
    """None, or what is wrong with the SQL rendered for `payload` in `tmpl` (text only)."""
    base = to_sql(to_text(fill(tmpl, "x")), dialect, alias)
    out = to_sql(to_text(fill(tmpl, payload)), dialect, alias)
    if base[0] != "sql":
        return None
    if out[0] != "sql":
        return "outcome %s %s" % (out[0], out[1])
    try:
        toks, btoks = sql_lex.lex(out[1]), sql_lex.lex(base[1])
    except sql_lex.SqlLexError as e:
        return "lex: %s" % e
    if sql_lex.skeleton(toks) != sql_lex.skeleton(btoks):
        return "skeleton"
    vals = [sql_lex.str_value(t[1]) for t in toks if t[0] == "STR"]
    bvals = [sql_lex.str_value(t[1]) for t in btoks if t[0] == "STR"]
    changed = [i for i, (a, b) in enumerate(zip(vals, bvals)) if a != b]
    if any(vals[i] != payload for i in changed) or not changed:
        return "altered"
    return None


def codepoint_sweep(ctx, block):
    """EVERY Unicode code point (surrogates included) inside a string literal, `block` consecutive
    code points per literal, in the literal positions whose rendering does not rewrite the
    content (no LIKE patterns): a content-dependent rendering shortcut has no code point to hide
    behind.  A failing block is bisected to its shortest failing run before it is reported."""
    tm = {n: (t, l) for n, t, l in templates()}
    idx = 0
    for start in range(0, 0x110000, block):
        payload = "".join(chr(c) for c in range(start, min(start + block, 0x110000)))
        for tname in SWEEP_TEMPLATES:
            for dialect in DIALECTS:
                idx += 1
                if not ctx.mine(idx):
                    continue
                tmpl = tm[tname][0]
                ctx.count("sweep_renderings")
                ctx.count("sweep_codepoints", len(payload))
                ctx.cls("sweep-plane:%d" % (start >> 16))
                why = sweep_anomaly(tmpl, payload, dialect)
                if why is None:
                    continue
                pl = payload
                while len(pl) > 1:
                    h = len(pl) // 2
                    if sweep_anomaly(tmpl, pl[:h], dialect):
                        pl = pl[:h]
                    elif sweep_anomaly(tmpl, pl[h:], dialect):
                        pl = pl[h:]
                    else:
                        break
                ctx.fail({"template": tname, "payload": pl, "dialect": dialect, "alias": None,
                          "filter": to_text(fill(tmpl, pl))[:300], "codepoints": ["U+%04X" % ord(c) for c in pl[:8]]},
                         "code-point sweep: string content not rendered as one verbatim SQL literal",
                         observed=why, keys=findings.sql_injection_triggers(tname, False, pl),
                         cls="codepoint-sweep", sig=["sweep", tname, dialect, why.split(" ")[0]])


def run(ctx):
    contracts.install_parse()
    contracts.install_visit_trace()
    tm = templates()
    rng = ctx.rng("c07")
    idx = 0
    harvested = source_placeholders()
    ctx.note_max("placeholders_harvested_from_source", len(harvested))
    core = set(PAYLOADS[:12] + ["{1}", "(", "f(x", "%s", "\\'"])
    for tname, tmpl, like_pos in tm:
        for payload in PAYLOADS + harvested + [h + "'" for h in harvested[:20]]:
            if ("-1001-" in tname or "-130-" in tname) and payload not in core:
                continue        # the longest lists meet a core set of payloads only (cost)
            for dialect in DIALECTS:
                for alias in (None, "tb"):
                    idx += 1
                    if not ctx.mine(idx):
                        continue
                    if alias and idx % 3:
                        continue
                    judge(ctx, tname, tmpl, like_pos, payload, dialect, alias, "pool")
                    if idx % 2503 == 0:
                        ctx.sample({"template": tname, "payload": payload, "dialect": dialect,
                                    "sql": to_sql(to_text(fill(tmpl, payload)), dialect, alias)})
    codepoint_sweep(ctx, ctx.pick(4096, 256))
    # random payloads
    for i in range(ctx.pick(1500, 40000)):
        if ctx.out_of_time():
            break
        tname, tmpl, like_pos = rng.choice(tm)
        payload = "".join(rng.choice(ALPHA) for _ in range(rng.randint(1, 12)))
        judge(ctx, tname, tmpl, like_pos, payload, rng.choice(list(DIALECTS)),
              rng.choice([None, None, "tb"]), "random")
    # field spellings
    names = ["naïve", "名前", "ſtrange", "K9", "a" * 128, "_x", "é" * 100, "col1", "Ünï_çødé9",
             "x" + "९", "tbl", "select", "drop", "or", "union", "a1b2", "__"]
    if ctx.shard == 0:
        for nm in names:
            for dialect in DIALECTS:
                for alias in (None, "tb"):
                    judge_field(ctx, nm, dialect, alias)
    contracts.flush_counts(ctx)


def requirements(m):
    out = []
    c = m["counters"]
    if c.get("executed_sqlite", 0) < 100:
        out.append("too few executed SQLite variants")
    if c.get("canary_checks", 0) < 100:
        out.append("too few canary checks")
    for d in DIALECTS:
        if not m["classes"].get("dialect:" + d):
            out.append("dialect never exercised: " + d)
    if not m["classes"].get("field-spelling"):
        out.append("no field spellings")
    if c.get("base_not_translated", 0) > 0.2 * max(1, c.get("evaluations", 0)):
        out.append("too many base filters not translated")
    return out


def replay(ctx, case):
    tm = {n: (t, l) for n, t, l in templates()}
    if "template" in case:
        t, l = tm[case["template"]]
        judge(ctx, case["template"], t, l, case["payload"], case["dialect"], case["alias"], "replay")
