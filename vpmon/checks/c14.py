"""C14 - alias rewriting is exact substitution on field references only.

Refuting events: decode(AliasRewriter(m).visit(t)) != subst_ref(decode(t), m); the input
tree changed (M-immut); an empty / non-matching map is not the identity; a fresh-name
bijection followed by its inverse does not restore t.
"""
from odata_query.grammar import ODataLexer, ODataParser
from odata_query.rewrite import AliasRewriter

from .. import drive, findings
from ..gen import fullgen, terms as T
from ..gen.printer import to_text
from ..mon import contracts
from ..ref.decode import decode, norm_for_parse
from ..ref.subst import subst_ref, free_field_refs, path_root
from ..shrink import shrink

RULE = ("full-grammar terms (depth <= 5 / 7) x alias maps whose keys are drawn from the term's "
        "own identifiers and paths, owner prefixes, non-members, and the collision classes "
        "(key equal to a built-in function name used in the term, to a named-parameter name, "
        "to a lambda variable); targets identifiers / paths / calls; plus identity maps, "
        "caller-supplied lexer/parser, and fresh-name bijection + inverse. distinct = "
        "distinct (term text, map); non-trivial = at least one key matches a field reference")
RULE += (" " + 'Also: namespaced homonyms of lambda variables, namespaced alias keys, chained entries (K1 -> T with T/x -> ...).')
ASSUMPTIONS = ["maps with one key a prefix of another are not generated (priority left open)",
               "reference substitution vpmon/ref/subst.py is trusted"]
SHARDS = {"quick": 12, "thorough": 16}
BUDGET_S = {"quick": 50, "thorough": 600}

TARGETS = [("id", "zz1", ()), T.path("rel", "fld"), T.path("p", "q", "r"),
           T.call("tolower", T.ident("nm")), T.call("my.fn", T.ident("u"), T.I(3)),
           ("id", "other", ("ns",)), T.call("concat", T.path("a1", "b1"), T.S("x'y"))]
BUILTIN_KEYS = ["date", "time", "year", "length", "contains", "now", "concat", "tolower",
                "substring", "round"]


def prefixes(p):
    out = []
    while p[0] == "attr":
        p = p[1]
        out.append(p)
    return out


def is_prefix(a, b):
    """path a is a proper prefix of path b"""
    return a in prefixes(b)


def make_map(rng, t):
    """-> (dict key_term->target_term, classes)"""
    refs = free_field_refs(t)
    cands = []
    classes = []
    for r in refs:
        cands.append((r, "member"))
        for p in prefixes(r):
            cands.append((p, "owner-prefix"))
    for n in T.walk(t):
        if n[0] == "call":
            base = n[1].split(".")[-1]
            if "." not in n[1]:
                cands.append((T.ident(base), "function-name"))
        if n[0] == "np":
            cands.append((n[1], "named-param-name"))
        if n[0] == "lam" and n[3]:
            # (a namespaced variable is written ns.x: as a key it is the identifier x in ns)
            *vns, vlast = n[3].split(".")
            vid = ("id", vlast, tuple(vns))
            cands.append((vid, "lambda-var"))
            if n[4] is not None:
                for m in T.walk(n[4]):
                    if m[0] == "attr" and path_root(m) == vid:
                        cands.append((m, "lambda-bound-path"))
    cands.append((T.ident("not_in_term"), "non-member"))
    cands.append((T.path("nope", "never"), "non-member"))
    cands.append((T.ident(rng.choice(BUILTIN_KEYS)), "builtin-name-key"))
    mapping = {}
    # chained entries: K1 -> T and T/x -> other, with K1/x in the filter.  Substitution is ONE
    # pass over the field references of the input: the second entry matches nothing there.
    paths = [r for r in refs if r[0] == "attr"]
    if paths and rng.random() < 0.2:
        ref = rng.choice(paths)
        chain = [ref] + prefixes(ref)          # ref, its owner, ..., its root
        if len(chain) >= 2:
            k = rng.randrange(1, len(chain))
            k1, below = chain[k], chain[k - 1]      # below = k1/x
            tgt = rng.choice([T.ident("tgt"), T.path("tt", "uu"), ("id", "tgt", ("ns",))])
            second_key = ("attr", tgt, below[2])
            mapping[k1] = tgt
            mapping[second_key] = rng.choice([T.ident("chained"), T.path("never", "here")])
            classes.append("chained-entries")
    for _ in range(rng.choice([0, 1, 1, 2, 3, 4])):
        key, cl = rng.choice(cands)
        if key in mapping:
            continue
        if key[0] == "id" and False:
            continue
        if any(is_prefix(key, k2) or is_prefix(k2, key) for k2 in mapping):
            continue
        tgt = rng.choice(TARGETS)
        if tgt == key:
            continue
        mapping[key] = tgt
        classes.append(cl)
    return mapping, classes


def rewrite(ast_node, mapping, supplied):
    amap = {to_text(k): to_text(v) for k, v in mapping.items()}
    if supplied:
        lx, ps = ODataLexer(), ODataParser()
        for junk in ("a eq", "#", "b eq 1"):
            try:
                ps.parse(lx.tokenize(junk))
            except Exception:
                pass
        rw = AliasRewriter(amap, lx, ps)
    else:
        rw = AliasRewriter(amap)
    return rw.visit(ast_node)


def one(t, mapping, supplied=False):
    """-> (problem, detail) or (None, None)"""
    text = to_text(t)
    o = drive.parse_ast(text)
    if o[0] != "ok":
        return ("source-rejected", o[:2])
    node = o[1]
    before = decode(node)
    try:
        res = rewrite(node, mapping, supplied)
    except contracts.MonitorViolation as e:
        return ("monitor:" + e.monitor, str(e)[:300])
    except Exception as e:
        return ("rewrite-raises", (type(e).__name__, str(e)[:200]))
    if decode(node) != before:
        return ("input-mutated", None)
    try:
        got = decode(res)
    except Exception as e:
        return ("result-not-an-ast", (type(e).__name__, str(e)[:200]))
    # targets as the parser reads them
    want = subst_ref(before, {norm_for_parse(k): norm_for_parse(v) for k, v in mapping.items()})
    if got != want:
        return ("rewrite-differs-from-substitution", {"got": got, "want": want})
    return (None, None)


def judge(ctx, t, mapping, classes, supplied, cls):
    ctx.count("evaluations")
    for c in classes:
        ctx.cls("key:" + c)
    prob, detail = one(t, mapping, supplied)
    nontrivial = any(c in ("member", "owner-prefix") for c in classes)
    if nontrivial:
        ctx.seen([to_text(t), sorted(to_text(k) for k in mapping)])
    if prob in (None, "source-rejected"):
        return
    def still(t2):
        return one(t2, mapping, supplied)[0] == prob
    small = shrink(t, still, max_tries=150)
    if small is not t and still(small):
        t = small
        prob, detail = one(t, mapping, supplied)
    keys = findings.rewrite_triggers(t, mapping)
    ctx.fail({"term": t, "text": to_text(t),
              "map": {to_text(k): to_text(v) for k, v in mapping.items()},
              "supplied_instances": supplied},
             prob, expected=(detail or {}).get("want") if isinstance(detail, dict) else None,
             observed=(detail or {}).get("got") if isinstance(detail, dict) else detail,
             keys=keys, cls=cls, sig=[prob, sorted(keys)])


def bound_free_term(rng):
    """The same path once bound by a lambda variable and once free, in either order."""
    var = rng.choice(["t", "x", "it"])
    attr = rng.choice(["name", "title", "b"])
    P = T.path(var, attr)
    lam = ("lam", T.ident(rng.choice(["tags", "items", "a"])), rng.choice(["any", "all"]), var,
           ("cmp", "eq", P, T.S("red")))
    free = ("cmp", rng.choice(["eq", "ne"]), P if rng.random() < 0.7 else T.path(var, attr, "c"), T.S("blue"))
    parts = [lam, free] if rng.random() < 0.5 else [free, lam]
    t = ("bool", rng.choice(["and", "or"]), parts[0], parts[1])
    key = P if rng.random() < 0.6 else T.ident(var)
    return t, {key: rng.choice(TARGETS)}


def reuse_sequence(ctx, terms, mapping):
    """One rewriter instance applied to several trees in a row (history on the instance)."""
    amap = {to_text(k): to_text(v) for k, v in mapping.items()}
    try:
        rw = AliasRewriter(amap)
    except Exception:
        return
    nm = {norm_for_parse(k): norm_for_parse(v) for k, v in mapping.items()}
    for i, t in enumerate(terms):
        o = drive.parse_ast(to_text(t))
        if o[0] != "ok":
            continue
        ctx.count("evaluations")
        ctx.count("reuse_steps")
        before = decode(o[1])
        try:
            got = decode(rw.visit(o[1]))
        except Exception as e:
            got = ("raises", type(e).__name__, str(e)[:100])
        want = subst_ref(before, nm)
        if got != want:
            ctx.fail({"texts": [to_text(x) for x in terms[: i + 1]], "map": amap, "position": i},
                     "a reused rewriter instance differs from exact substitution (history)",
                     expected=want, observed=got, keys=findings.rewrite_triggers(t, mapping),
                     cls="reuse", sig=["reuse"])
            return


def bijection(ctx, t):
    text = to_text(t)
    o = drive.parse_ast(text)
    if o[0] != "ok":
        return
    node = o[1]
    idents = sorted({path_root(r) for r in free_field_refs(t)} - {None})
    idents = [i for i in idents if i[0] == "id" and not i[2]]
    used = {n[1] for n in T.walk(t) if n[0] == "id"} | {n[2] for n in T.walk(t) if n[0] == "attr"}
    funcs = {n[1] for n in T.walk(t) if n[0] == "call"}
    lamvars = {n[3] for n in T.walk(t) if n[0] == "lam" and n[3]}
    npn = {n[1][1] for n in T.walk(t) if n[0] == "np"}
    idents = [i for i in idents if i[1] not in funcs and i[1] not in lamvars and i[1] not in npn]
    if not idents:
        return
    fwd = {i[1]: "fresh_%d_q" % n for n, i in enumerate(idents)}
    if set(fwd.values()) & used:
        return
    inv = {v: k for k, v in fwd.items()}
    ctx.count("evaluations")
    ctx.count("bijections")
    try:
        there = AliasRewriter(fwd).visit(node)
        back = AliasRewriter(inv).visit(there)
    except Exception as e:
        ctx.fail({"text": text, "map": fwd}, "bijection raises", observed=repr(e)[:200],
                 keys=findings.rewrite_triggers(t, {}), cls="bijection", sig=["bij-exc"])
        return
    if decode(back) != decode(node) or not (back == node):
        ctx.fail({"text": text, "map": fwd}, "bijection then inverse does not restore the tree",
                 expected=decode(node), observed=decode(back), cls="bijection", sig=["bij"])


def run(ctx):
    contracts.install_parse()
    contracts.install_visit_trace()
    rng = ctx.rng("c14")
    o = fullgen.Opts()
    maxd = ctx.pick(5, 7)
    for i in range(ctx.pick(2500, 50000)):
        if ctx.out_of_time():
            break
        t = fullgen.gen_expr(rng, o, rng.randint(1, maxd))
        if T.size(t) > 200:
            continue
        t = norm_for_parse(t)
        mapping, classes = make_map(rng, t)
        judge(ctx, t, mapping, classes or ["empty-map"], rng.random() < 0.25, "random")
        if i % 5 == 0:
            judge(ctx, t, {}, ["empty-map"], False, "identity")
            bijection(ctx, t)
        if i % 4 == 0:
            bt, bmap = bound_free_term(rng)
            judge(ctx, bt, bmap, ["bound-and-free-path"], rng.random() < 0.2, "bound-free")
            # history on one instance: plain use first / lambda use first / mixed
            plain = ("cmp", "eq", list(bmap)[0] if list(bmap)[0][0] == "attr" else T.path(list(bmap)[0][1], "name"), T.S("q"))
            seqs = [[plain, bt, plain], [bt, plain], [t, bt, plain, t]]
            reuse_sequence(ctx, rng.choice(seqs), bmap)
            reuse_sequence(ctx, [t, t], mapping)
        if i % 500 == 0:
            ctx.sample({"text": to_text(t)[:160],
                        "map": {to_text(k): to_text(v) for k, v in mapping.items()}})
    # directed collision cases named in the property
    directed = [
        ("date(created) eq date and year(date) gt 2000", {"date": "created_at"}),
        ("length(length) gt 3 or contains(contains, 'x')", {"length": "len_f", "contains": "c/d"}),
        ("my.f(key=key, other=1) eq key", {"key": "kk", "other": "oo"}),
        ("items/any(x: x/price gt x and price lt 3) and x eq 1", {"x": "outer_x", "price": "p/amount"}),
        ("a/b/c eq 1 and a/b eq 2 and a eq 3", {"a/b": "ab"}),
        ("a/b/c eq 1 and a/b eq 2 and a eq 3", {"a": "root/r"}),
        ("posts/all(p: p/title eq title)", {"title": "tolower(name)", "p": "zz", "posts": "blog/posts"}),
        ("time(t) eq 10:00:00 and time eq 10:00:00", {"time": "tm"}),
    ]
    if ctx.shard == 0:
        for text, amap in directed:
            o_ = drive.parse_term(text)
            if o_[0] != "ok":
                ctx.fail({"text": text}, "directed case rejected by the parser", observed=o_,
                         keys=findings.parse_triggers(("id", "x", ()), text), cls="directed")
                continue
            t = o_[1]
            mapping = {drive.parse_term(k)[1]: drive.parse_term(v)[1] for k, v in amap.items()}
            judge(ctx, t, mapping, ["directed"], False, "directed")
    contracts.flush_counts(ctx)


def requirements(m):
    out = []
    if not m["counters"].get("M-immut"):
        out.append("M-immut never evaluated")
    for k in ("key:member", "key:owner-prefix", "key:function-name", "key:named-param-name",
              "key:lambda-var", "key:non-member", "key:empty-map", "key:bound-and-free-path"):
        if not m["classes"].get(k):
            out.append("map class never generated: " + k)
    if not m["counters"].get("bijections"):
        out.append("no bijection cases")
    if m["counters"].get("reuse_steps", 0) < 50:
        out.append("rewriter reuse lane under-evaluated")
    return out


def replay(ctx, case):
    t = drive.parse_term(case["text"])[1]
    mapping = {drive.parse_term(k)[1]: drive.parse_term(v)[1] for k, v in case["map"].items()}
    prob, detail = one(t, mapping, case.get("supplied_instances", False))
    print(prob, detail)
    if prob:
        ctx.fail(case, prob, observed=detail)
