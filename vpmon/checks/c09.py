"""C09 - every SQL dialect emits well-formed SQL whose structure mirrors the filter.

Per (filter, dialect, alias): (a) the text lexes, is balanced, has no empty operand and no
placeholder; (b) parsed with the independent standard-precedence SQL parser, every
sub-expression of the filter occupies a complete subtree (fragments come from the M-part
hook: the string each nested visit() returned; leaves are unique per occurrence);
(c) an operator node's SQL root is the corresponding operator with the children in source
order; (d) a field/literal leaf outside any call occurs exactly once (inside a call: at
least once); (e) the alias qualifies every field reference and nothing else.
"""
from odata_query import ast, exceptions
from odata_query.sql import AstToSqlVisitor
from odata_query.sql.athena import AstToAthenaSqlVisitor
from odata_query.sql.sqlite import AstToSqliteSqlVisitor

from .. import drive, findings
from ..gen import scalar, terms as T
from ..gen.printer import to_text
from ..mon import contracts
from ..ref import sql_lex, sql_parse, sql_value
from ..ref.decode import decode
from ..ref.types import welltyped, static_type
from ..shrink import shrink

RULE = ("typed generator over all functions any SQL dialect implements, composed arbitrarily "
        "(function results inside arithmetic, arithmetic inside arguments, durations, all "
        "literal kinds, in-lists, null tests, and/or/not, right-nested operators), depth <= 4 / "
        "6, leaves made unique per occurrence, x {standard, SQLite, Athena} x alias "
        "{absent, present}. distinct = distinct (filter text, dialect, alias); non-trivial = "
        "filter has >= 2 operator/call nodes and was translated")
RULE += (" " + 'Also: schema-name shapes (leading underscores, upper case, 127 characters); literal spellings outside the ABNF; equal-by-value operands lane; every translation repeated on one long-lived visitor per dialect with table_alias re-pointed.')
RULE += (" " + 'Signed-literal lane: 1..3 unary minus over 13 signed literal spellings (every zero) x 6 positions x alias.')
RULE += (" " + 'Alias-shape lane: 15 aliases equal to / case variants of / prefixes and extensions of field names, SQL words, odd characters x 8 filters x 3 dialects.')
ASSUMPTIONS = ["vpmon/ref/sql_parse.py: OR < AND < NOT < comparison < || < + - < * / % < "
               "unary minus; comparison operators do not chain",
               "AND/OR chains are compared modulo associativity (x AND (y AND z) may be emitted "
               "as x AND y AND z)",
               "filters a dialect refuses with a library exception are outside the "
               "SQL-expressible fragment (C12 judges refusals)"]
SHARDS = {"quick": 12, "thorough": 16}
BUDGET_S = {"quick": 55, "thorough": 700}

DIALECTS = {"standard": AstToSqlVisitor, "sqlite": AstToSqliteSqlVisitor,
            "athena": AstToAthenaSqlVisitor}
SQL_FUNCS = {"contains", "endswith", "startswith", "indexof", "length", "substring", "tolower",
             "toupper", "trim", "concat", "year", "month", "day", "hour", "minute", "date",
             "now", "round", "floor", "ceiling"}
OPTOKENS = (ast._BinOpToken, ast._Comparator, ast._BoolOpToken, ast._UnaryOpToken,
            ast._CollectionOperator)


def profile():
    p = scalar.Profile()
    p.funcs = set(SQL_FUNCS)
    p.columns = dict(scalar.SCHEMA, dd="date")
    p.types = {"int", "float", "str", "bool", "datetime", "date"}
    p.bare_bool_literal = True
    p.null_left = True
    return p


def uniquify(t):
    """Make every leaf occurrence unique (distinct column names / literal values)."""
    n = [100]

    def f(x):
        if x[0] == "id" and not x[2]:
            n[0] += 1
            # schema-name shapes: leading underscores, upper case, trailing underscore, long
            shape = ("%s_%d", "_%s_%d", "%s_%d", "__%s_%d", "%s_%d_", "%s_%d")[n[0] % 6]
            name = shape % (x[1], n[0])
            if n[0] % 6 == 2:
                name = name.upper()
            if n[0] % 12 == 5:
                name = name + "_" + "w" * (127 - len(name))
            return ("id", name, ())
        if x[0] == "lit":
            n[0] += 1
            k, v = x[1], x[2]
            if k == "int":
                sign = "-" if v.startswith("-") else ""
                return ("lit", "int", sign + str(1000 + n[0]))
            if k == "float":
                sign = "-" if v.startswith("-") else ""
                return ("lit", "float", sign + str(1000 + n[0]) + ".5")
            if k == "str":
                return ("lit", "str", v + "#%d" % n[0])
        return x
    return T.map_term(f, t)


def add_durations(rng, t):
    """Now and then add a duration to a datetime operand (INTERVAL arithmetic)."""
    def f(x):
        if x[0] == "id" and _schema_of(x[1]) == "datetime" and rng.random() < 0.3:
            return ("bin", rng.choice(["add", "sub"]), x,
                    T.lit("duration", rng.choice(scalar.DUR_LITS + ["P1Y", "P2M", "P1Y2M3DT4H5M6S", "-P1DT2H",
                                                              "P1DT1H", "-P3DT3H3M", "P2DT5H2M", "-P1Y6M",
                                                              "+P1DT1S", "PT1H1M1S", "-PT1H30M"])))
        return x
    return T.map_term(f, t)


def token_spans(sql, toks, frag):
    """Token ranges [i, j) where `frag` occurs aligned to token boundaries."""
    starts = {t[2]: i for i, t in enumerate(toks)}
    ends = {t[3]: i + 1 for i, t in enumerate(toks)}
    out = []
    k = sql.find(frag)
    while k >= 0:
        if k in starts and (k + len(frag)) in ends:
            out.append((starts[k], ends[k + len(frag)]))
        k = sql.find(frag, k + 1)
    return out


CMP_SQL = {"eq": "=", "ne": "!=", "lt": "<", "le": "<=", "gt": ">", "ge": ">=", "in": "IN"}
BIN_SQL = {"add": ("add", "+"), "sub": ("add", "-"), "mul": ("mul", "*"), "div": ("mul", "/"),
           "mod": ("mul", "%")}


def flatten(node, kind):
    """Operands of an AND/OR chain in source order (through parentheses)."""
    node = sql_parse.strip_parens(node)
    if node[0] == kind:
        return flatten(node[2][0], kind) + flatten(node[2][1], kind)
    return [node]


def analyse(ctx, astnode, term, sql, events, alias, unique=True):
    """-> list of problems (strings).  events: [(visitor, node, result)]"""
    try:
        tree, toks = sql_parse.parse(sql)
    except sql_lex.SqlLexError as e:
        return ["(a) does not tokenise: %s" % e]
    except sql_parse.SqlParseError as e:
        return ["(a) malformed SQL: %s" % e]
    ctx.count("sql_parsed")
    spans = {}
    for n in sql_parse.subtrees(tree):
        spans.setdefault((n[3], n[4]), []).append(n)
    frag_of = {}
    for vis, node, res in events:
        if isinstance(node, OPTOKENS):
            continue
        if not isinstance(res, str) or res == "" or res == "None":
            return ["(a) a sub-expression was rendered as %r (%s)" % (res, type(node).__name__)]
        frag_of[id(node)] = res
    probs = []

    def subtree_at(node, want_kind=None):
        """Parse nodes for the fragment of `node` (through redundant parentheses)."""
        frag = frag_of.get(id(node))
        if frag is None:
            return None
        found = []
        for (i, j) in token_spans(sql, toks, frag):
            for pn in spans.get((i, j), []):
                found.append(pn)
        return found

    def walk(node, parent, in_call, is_right):
        cn = type(node).__name__
        if isinstance(node, OPTOKENS):
            return
        frag = frag_of.get(id(node))
        if frag is None:
            probs.append("(b) sub-expression %s was never visited" % cn)
            return
        occ = token_spans(sql, toks, frag)
        pnodes = [pn for sp in occ for pn in spans.get(sp, [])]
        same_assoc = (cn == "BoolOp" and isinstance(parent, ast.BoolOp)
                      and type(parent.op) is type(node.op))
        is_strlit = cn == "String"
        concat_chain = (cn == "Call" and node.func.name == "concat" and any(
            i > 0 and toks[i - 1][1] == "||" for i, _ in occ))
        if not pnodes and not same_assoc and not concat_chain:
            if in_call and is_strlit:
                marker = node.val[node.val.rfind("#"):] if "#" in node.val else node.val
                if not any(marker in sql_lex.str_value(t[1]) for t in toks if t[0] == "STR"):
                    probs.append("(d) string literal %r of a call argument is absent" % node.val)
            elif in_call and cn in ("Identifier", "Integer", "Float") and occ:
                pass
            else:
                probs.append("(b) sub-expression %s %r does not occupy a complete subtree"
                             % (cn, frag[:80]))
        # a duration literal must denote the same (months, seconds) in the SQL
        if cn == "Duration" and pnodes:
            want = sql_value.duration_value(node.val)
            got = sql_value.interval_value(pnodes[0], toks)
            ctx.count("durations_evaluated")
            if want is not None and got != want:
                probs.append("(c) duration %s is rendered as an interval expression worth %s "
                             "(months, seconds), not %s" % (node.val, got, want))
        # (d) leaves
        if cn in ("Identifier", "Integer", "Float", "String") and not in_call:
            if unique and len(occ) != 1:
                probs.append("(d) leaf %r occurs %d times outside a call" % (frag, len(occ)))
        if cn == "Identifier" and alias and not frag.startswith('"%s".' % alias):
            probs.append("(e) field reference %r is not qualified by the alias" % frag)
        # (c) operator structure
        roots = [sql_parse.strip_parens(p) for p in pnodes]
        if cn == "BinOp":
            kind, op = BIN_SQL[decode(node)[1]]
            ok = [r for r in roots if r[0] == kind and r[1] == op]
            if pnodes and not ok:
                probs.append("(c) arithmetic %s is not a %s node in the SQL" % (decode(node)[1], op))
            for r in ok[:1]:
                check_children(node.left, node.right, r)
        elif cn == "Compare":
            op = decode(node)[1]
            label = CMP_SQL[op]
            null_side = isinstance(node.right, ast.Null) or isinstance(node.left, ast.Null)
            if null_side and op in ("eq", "ne"):
                label = "IS" if op == "eq" else "IS NOT"
            ok = [r for r in roots if r[0] == "cmp" and r[1] == label]
            if pnodes and not ok:
                probs.append("(c) comparison %s is not a %s node in the SQL" % (op, label))
            for r in ok[:1]:
                if isinstance(node.left, ast.Null) and not isinstance(node.right, ast.Null) \
                        and op in ("eq", "ne"):
                    # the null test is symmetric: `null eq x` may be emitted as `x IS NULL`
                    check_children(node.right, node.left, r)
                else:
                    check_children(node.left, node.right, r)
        elif cn == "BoolOp":
            kind = "and" if isinstance(node.op, ast.And) else "or"
            if pnodes:
                ok = [r for r in roots if r[0] == kind]
                if not ok:
                    probs.append("(c) %s is not an %s node in the SQL" % (kind, kind.upper()))
                else:
                    # operands modulo associativity, in source order
                    def operands(n):
                        if isinstance(n, ast.BoolOp) and type(n.op) is type(node.op):
                            return operands(n.left) + operands(n.right)
                        return [n]
                    want = operands(node)
                    got = flatten(ok[0], kind)
                    if len(want) != len(got):
                        probs.append("(c) %s chain has %d operands in the SQL, %d in the filter"
                                     % (kind, len(got), len(want)))
                    else:
                        for w, g in zip(want, got):
                            fw = frag_of.get(id(w))
                            sp = token_spans(sql, toks, fw) if fw else []
                            inner = sql_parse.strip_parens(g)
                            if (g[3], g[4]) not in sp and (inner[3], inner[4]) not in sp:
                                probs.append("(c) operand order/nesting of %s differs" % kind)
                                break
        elif cn == "UnaryOp":
            if isinstance(node.op, ast.Not):
                ok = [r for r in roots if r[0] == "not"]
                if pnodes and not ok:
                    probs.append("(c) not is not a NOT node in the SQL")
                for r in ok[:1]:
                    check_one(node.operand, r[2][0])
            else:
                ok = [r for r in roots if r[0] == "neg" or (r[0] == "lit" and r[1] in ("NUM", "INTERVAL"))]
                if pnodes and not ok:
                    probs.append("(c) unary minus is not a negation node in the SQL")
        # recurse
        if cn in ("BinOp", "BoolOp", "Compare"):
            walk(node.left, node, in_call, False)
            walk(node.right, node, in_call, True)
        elif cn == "UnaryOp":
            walk(node.operand, node, in_call, False)
        elif cn == "List":
            for it in node.val:
                walk(it, node, in_call, False)
        elif cn == "Call":
            for a in node.args:
                walk(a, node, True, False)

    def check_one(child, pnode):
        fc = frag_of.get(id(child))
        if fc is None:
            return
        inner = sql_parse.strip_parens(pnode)
        sp = token_spans(sql, toks, fc)
        if (pnode[3], pnode[4]) not in sp and (inner[3], inner[4]) not in sp:
            probs.append("(c) operand %r is not the operand of its operator in the SQL" % fc[:60])

    def check_children(left, right, pnode):
        check_one(left, pnode[2][0])
        check_one(right, pnode[2][1])

    walk(astnode, None, False, False)
    return probs


def translate(astnode, dialect, alias):
    with contracts.tracing(want_parts=True) as tr:
        try:
            sql = DIALECTS[dialect](table_alias=alias).visit(astnode)
        except exceptions.ODataException as e:
            return ("refused", type(e).__name__, tr)
        except contracts.MonitorViolation as e:
            return ("monitor", str(e)[:300], tr)
        except Exception as e:
            return ("raises", "%s: %s" % (type(e).__name__, str(e)[:100]), tr)
    return ("sql", sql, tr)


_REUSED = {}


def reused_translate(astnode, dialect, alias):
    """The same translation on ONE long-lived visitor per dialect whose table_alias is
    re-pointed before every call (other alias, no alias, same alias again)."""
    v = _REUSED.get(dialect)
    if v is None:
        v = _REUSED[dialect] = DIALECTS[dialect](table_alias="first")
        from odata_query import ast as A
        v.visit(A.Compare(A.Eq(), A.Identifier("warm_up"), A.Integer("1")))   # it HAS been used
    v.table_alias = alias
    try:
        return v.visit(astnode)
    except Exception as e:
        return "%s: %s" % (type(e).__name__, str(e)[:100])


def one(ctx, t, dialect, alias, unique=True):
    """-> (problems, sql) ; problems None when outside the fragment"""
    text = to_text(t)
    o = drive.parse_ast(text)
    if o[0] != "ok":
        return None, None
    res = translate(o[1], dialect, alias)
    if res[0] == "refused":
        ctx.count("refused")
        return None, None
    if res[0] != "sql":
        return ["visitor %s: %s" % (res[0], res[1])], None
    sql = res[1]
    if not isinstance(sql, str):
        return ["(a) result is not a string: %r" % (sql,)], None
    again = reused_translate(o[1], dialect, alias)
    ctx.count("reused_visitor_compared")
    if again != sql:
        return ["(e) a visitor used before, with table_alias now %r, translates differently "
                "from a fresh one: %s" % (alias, str(again)[:200])], sql
    probs = analyse(ctx, o[1], t, sql, res[2].events, alias, unique)
    if alias and not probs:
        res0 = translate(o[1], dialect, None)
        if res0[0] == "sql":
            try:
                ta = sql_lex.lex(sql)
                t0 = sql_lex.lex(res0[1])
            except sql_lex.SqlLexError:
                return probs, sql
            stripped, i = [], 0
            while i < len(ta):
                if (ta[i][0] == "ID" and ta[i][1] == '"%s"' % alias and i + 2 < len(ta)
                        and ta[i + 1][1] == "." and ta[i + 2][0] == "ID"):
                    i += 2
                    continue
                stripped.append(ta[i][:2])
                i += 1
            if stripped != [x[:2] for x in t0]:
                probs.append("(e) stripping the alias does not give the alias-free text")
            elif any(x[0] == "ID" and x[1] == '"%s"' % alias for x in stripped) and \
                    not any(n[0] == "id" and n[1].lower() == alias.lower() for n in T.walk(t)):
                probs.append("(e) the alias occurs outside a field qualification")
            ctx.count("alias_compared")
    return probs, sql


def _schema_of(name):
    return profile().columns.get(name.lstrip("_").split("_")[0].lower())


def typed_ok(t):
    return welltyped(t, _schema_of) and static_type(t, {}) == "bool" or \
        (t[0] in ("cmp", "bool", "un", "call") and welltyped(t, _schema_of))


def n_ops(t):
    return sum(1 for n in T.walk(t) if n[0] in ("bin", "cmp", "bool", "un", "call"))


def judge(ctx, t, dialect, alias, cls, unique=True):
    ctx.count("evaluations")
    probs, sql = one(ctx, t, dialect, alias, unique)
    if probs is None:
        return
    ctx.cls("dialect:%s" % dialect)
    if n_ops(t) >= 2:
        ctx.seen([to_text(t), dialect, alias])
    for k in T.kinds(t):
        ctx.cls("kind:" + k)
    if not probs:
        return
    p0 = probs[0][:3]

    def still(t2):
        pr, _ = one(ctx, t2, dialect, alias, unique)
        return bool(pr) and pr[0][:3] == p0
    small = shrink(t, still, max_tries=200, accept=typed_ok) if unique else t
    if small is not t and still(small):
        t = small
        probs, sql = one(ctx, t, dialect, alias, unique)
    keys = findings.sql_structure_triggers(t, dialect)
    ctx.fail({"filter": to_text(t), "dialect": dialect, "alias": alias, "sql": sql, "term": t},
             probs[0][:60], expected="well-formed SQL mirroring the filter", observed=probs[:4],
             keys=keys, cls=cls, sig=[probs[0][:12], sorted(keys), dialect])


def run(ctx):
    contracts.install_parse()
    contracts.install_visit_trace()
    rng = ctx.rng("c09")
    p = profile()
    maxd = ctx.pick(4, 6)
    dl = list(DIALECTS)
    # coverage prelude: every function once per dialect, one duration and one date literal
    pre = [scalar.simple_filter_for(rng, p, f) for f in sorted(SQL_FUNCS)]
    pre.append(("cmp", "gt", ("bin", "add", T.ident("d"), T.lit("duration", "P1DT2H")), T.ident("d")))
    pre.append(("cmp", "eq", T.ident("dd"), T.lit("date", "2020-01-01")))
    pre.append(("cmp", "lt", T.ident("d"), T.lit("datetime", "2020-01-01T00:00:00")))
    pre.append(("un", "not", ("cmp", "in", ("bin", "mod", ("bin", "div", ("bin", "mul", T.ident("a"), T.I(2)), T.I(3)), T.I(5)),
                              T.lst(T.I(1), T.I(2)))))
    for j, t in enumerate(pre):
        if ctx.mine(j):
            for dialect in dl:
                judge(ctx, uniquify(t), dialect, None, "coverage")
                judge(ctx, uniquify(t), dialect, "tb", "coverage")
    # operands that are EQUAL BY VALUE (the uniquifier below never produces them): the same
    # sub-expression on both sides of every arithmetic / comparison / boolean operator
    a_, b_, s_ = T.ident("a_1"), T.ident("b_2"), T.ident("s_3")
    subs = [("bin", o2, a_, b_) for o2 in ("add", "sub", "mul", "div", "mod")] + \
           [T.call("indexof", s_, T.S("x")), T.call("length", s_), ("un", "neg", a_)]
    j = 0
    for e in subs:
        for op in ("add", "sub", "mul", "div", "mod"):
            j += 1
            if not ctx.mine(j):
                continue
            t = ("cmp", "eq", ("bin", op, e, e), T.I(7))
            for dialect in dl:
                for alias in (None, "tb"):
                    ctx.cls("equal-operands")
                    judge(ctx, t, dialect, alias, "equal-operands", unique=False)
    for op in ("and", "or"):
        e = ("cmp", "eq", a_, T.I(1))
        t = ("bool", op, ("bool", "or" if op == "and" else "and", e, ("cmp", "gt", b_, T.I(2))),
             ("bool", "or" if op == "and" else "and", e, ("cmp", "gt", b_, T.I(2))))
        if ctx.shard == 0:
            for dialect in dl:
                judge(ctx, t, dialect, None, "equal-operands", unique=False)
    # durations whose seconds carry fractions of every length (1..12 digits, leading / trailing
    # zeros, next to whole minutes / hours / days, both signs): the interval in the SQL must
    # denote exactly the literal's value, spelled as a plain number
    durs = ["PT59.123456S", "PT3723.250001S", "P1DT2H3M4.000005S", "PT0.000001S", "PT0.5S", "PT1.50S", "PT59.999999S",
            "PT0.000100S", "PT123456.789S", "P1DT0.1S", "-PT0.25S", "PT1.0S", "PT10.000000S", "PT0.123456789012S",
            "PT0.1234567S", "P3DT0.000010S", "-P1DT2H3M4.5S", "PT100000.000001S", "PT9.87654321S", "PT0.05S"]
    j = 0
    for dlit in durs:
        for op in ("add", "sub"):
            for t in (("cmp", "gt", ("bin", op, T.ident("d_1"), T.lit("duration", dlit)), T.ident("d_2")),
                      ("cmp", "eq", T.ident("d_1"), ("bin", op, T.ident("d_2"), T.lit("duration", dlit)))):
                j += 1
                if not ctx.mine(j):
                    continue
                for dialect in dl:
                    for alias in (None, "tb"):
                        ctx.cls("duration-fractions")
                        judge(ctx, t, dialect, alias, "duration-fractions", unique=False)
    # signs in front of signed spellings: 1..3 unary minus over literals written with a sign
    # of their own, zero in all its spellings among them (value 0, text "-0"): the rendering
    # must never glue two signs into a comment marker
    signed = [T.lit("int", "-0"), T.lit("int", "-00"), T.lit("int", "+0"), T.lit("int", "0"), T.lit("int", "-5"), T.lit("int", "+5"),
              T.lit("float", "-0.0"), T.lit("float", "-0e3"), T.lit("float", "-1e-400"), T.lit("float", "+0.0"), T.lit("float", "-2.5"),
              T.lit("float", "-0.0e-0"), T.lit("int", "-000000000000000000000")]
    j = 0
    for lit in signed:
        for kneg in (1, 2, 3):
            x = lit
            for _ in range(kneg):
                x = ("un", "neg", x)
            col = T.ident("a_1" if lit[1] == "int" else "f_1")
            for t in (("cmp", "eq", col, x), ("cmp", "eq", ("bin", "sub", col, x), T.I(5)), ("cmp", "lt", x, col),
                      ("cmp", "eq", ("bin", "mul", x, col), lit), ("cmp", "eq", ("bin", "sub", x, lit), col),
                      ("cmp", "in", col, T.lst(T.I(1), lit))):
                j += 1
                if not ctx.mine(j):
                    continue
                for dialect in dl:
                    for alias in (None, "tb"):
                        ctx.cls("signed-literal-under-minus")
                        judge(ctx, t, dialect, alias, "signed-literal", unique=False)
    # alias shapes: an alias that IS one of the filter's field names, differs from one in letter
    # case only, is a prefix / an extension of one, or is a word the dialect uses itself
    fq, fp = T.ident("qty"), T.ident("price")
    shapes = [("cmp", "gt", fq, T.I(5)), ("bool", "and", ("cmp", "gt", fq, T.I(5)), ("cmp", "lt", ("bin", "mul", fp, fq), T.I(100))),
              ("cmp", "in", fq, T.lst(T.I(1), T.I(2))), ("cmp", "eq", ("un", "neg", fq), fp),
              ("cmp", "eq", ("bin", "add", fq, fq), fp), ("un", "not", ("cmp", "eq", fq, ("lit", "null", "null"))),
              ("cmp", "ge", T.call("length", T.ident("Name")), fq), T.call("contains", T.ident("Name"), T.ident("name"))]
    j = 0
    for t in shapes:
        for alias in ("qty", "QTY", "Qty", "qt", "qtyx", "price", "pric", "name", "Name", "NAME", "q", "select", "t.x", "a b", "_"):
            j += 1
            if not ctx.mine(j):
                continue
            for dialect in dl:
                judge(ctx, t, dialect, alias, "alias-shape", unique=False)
                ctx.cls("alias-shape")
    # literal spellings outside the ABNF that a lexer built on \d / \w / \s may accept: IF a
    # filter is accepted, its SQL must still be well formed and mirror it
    exotic = [("a", T.lit("int", "\uff15")), ("a", T.lit("int", "-\u0663")), ("a", T.lit("int", "1\u0662")),
              ("f", T.lit("float", "\uff11.\uff15")), ("f", T.lit("float", "1.5e\uff12")),
              ("dd", T.lit("date", "\uff12\uff10\uff12\uff10-01-01")),
              ("d", T.lit("datetime", "2020-01-0\uff11T00:00:00")),
              ("d", T.lit("datetime", "2020-01-01T00:00:0\u0660Z")),
              ("s", T.lit("guid", "6c0e37e3-e856-45ee-bd58-484b1188\uff12c67"))]
    for j, (col, lit) in enumerate(exotic):
        if ctx.mine(j):
            for op in ("eq", "lt"):
                t = ("cmp", op, T.ident(col + "_1"), lit)
                for dialect in dl:
                    ctx.cls("exotic-literal-spelling")
                    if drive.parse_ast(to_text(t))[0] == "ok":
                        ctx.cls("exotic-literal-spelling-accepted")
                    judge(ctx, t, dialect, None, "exotic-literal")
            t = ("cmp", "gt", ("bin", "add", T.ident("d_1"), T.lit("duration", "P\uff11D")), T.ident("d_2"))
            for dialect in dl:
                judge(ctx, t, dialect, "tb", "exotic-literal")
    for i in range(ctx.pick(1400, 30000)):
        if ctx.out_of_time():
            break
        t = scalar.gen_bool(rng, p, rng.randint(1, maxd))
        if T.size(t) > 120:
            continue
        if i % 4 == 0:
            t = add_durations(rng, t)
        t = uniquify(t)
        for dialect in dl:
            judge(ctx, t, dialect, None, "typed")
            if (i + dl.index(dialect)) % 3 == 0:
                judge(ctx, t, dialect, "tb", "typed-alias")
        if i % 400 == 0:
            ctx.sample({"filter": to_text(t)[:200],
                        "sqlite": one(ctx, t, "sqlite", None)[1]})
    contracts.flush_counts(ctx)


def requirements(m):
    out = []
    c = m["counters"]
    if c.get("M-part", 0) < 1000:
        out.append("M-part hook evaluated fewer than 1000 times")
    if c.get("sql_parsed", 0) < 500:
        out.append("fewer than 500 SQL texts parsed")
    if not c.get("alias_compared"):
        out.append("alias comparison never ran")
    for d in DIALECTS:
        if not m["classes"].get("dialect:" + d):
            out.append("dialect never produced SQL: " + d)
    need = ["kind:call:" + f for f in SQL_FUNCS if f != "hassubset"] + \
           ["kind:" + k for k in ("add", "sub", "mul", "div", "mod", "eq", "ne", "lt", "in", "and",
                                  "or", "not", "lit:duration", "lit:datetime", "lit:date")]
    for k in need:
        if not m["classes"].get(k):
            out.append("construct never translated: " + k)
    return out


def replay(ctx, case):
    def tup(x):
        return tuple(tup(i) for i in x) if isinstance(x, list) else x
    contracts.install_visit_trace()
    t = tup(case["term"])
    probs, sql = one(ctx, t, case["dialect"], case["alias"])
    print(sql)
    print(probs)
    if probs:
        ctx.fail(case, probs[0], observed=probs)
