"""C02 - Django apply_odata_query returns exactly the objects the filter denotes.

Refuting event: the ids returned by the real shorthand on an in-memory SQLite (harness
model T) differ from the rows the reference evaluator marks TRUE, or a library / foreign
exception for a filter of the Django-supported fragment.
"""
from odata_query import exceptions

from .. import findings
from ..envs import django_env, sqlite_env
from ..gen import scalar, terms as T
from ..gen.printer import to_text
from ..mon import contracts
from . import scalar_common as SC

RULE = ("typed Bool-rooted filters over the Django-supported scalar fragment: arithmetic, "
        "comparisons in both orientations (1 lt a, a lt b), in-lists, null tests, and/or/not, "
        "boolean functions bare / negated / eq true|false, length concat indexof substring "
        "tolower toupper trim year month day hour minute second date time round floor ceiling "
        "now; rows as in C01. distinct = distinct filter text; non-trivial = selects at least "
        "one judged row and rejects at least one")
RULE += (" " + 'Added lanes: machine numbers; long in-lists under and/or/not; same-field chains; integer expressions vs decimals; fixed-point column m (DecimalField(5,2)) with literals beyond its precision.')
RULE += (" " + 'Round-10 lanes: numeric-spelling twins, grouping grid, bracket-string groups (as in C01).')
RULE += (" " + 'Round-13 lane: NULLable column of every kind (GUID, date, string, integer, date-time, boolean) x eq / ne both operand orders, in, null tests x 7 negation wrappers.')
RULE += (" " + 'Round 14: in-lists holding a null literal under the negation wrappers.')
ASSUMPTIONS = ["Django 6.1 on in-memory SQLite, USE_TZ=False, harness app vp_djapp",
               "not in the fragment (refused by the backend, judged by C12): unary minus on "
               "non-literals, bare boolean columns, geo.* (GeoDjango cannot load: no GDAL)",
               "reference evaluator + UNSPEC as in C01"]
SHARDS = {"quick": 12, "thorough": 16}
BUDGET_S = {"quick": 55, "thorough": 800}

DJANGO_FUNCS = {"contains", "startswith", "endswith", "length", "indexof", "substring", "tolower",
                "toupper", "trim", "concat", "year", "month", "day", "hour", "minute", "second",
                "date", "time", "now", "round", "floor", "ceiling"}


def profile():
    p = scalar.Profile()
    p.funcs = set(DJANGO_FUNCS)
    p.columns = dict(scalar.SCHEMA, m="decimal", iv="duration")
    p.types = {"int", "float", "str", "bool", "datetime", "decimal", "duration"}
    p.duration_lits = scalar.IV_LITS
    p.neg = False
    p.neg_literal = False
    p.bool_cmp_atoms = False
    p.bare_bool_column = False
    p.null_left = True
    return p


TZ_NAME = "America/Chicago"


def SHARD_ENV(shard, nshards):
    """Every fourth shard runs Django in its DEFAULT configuration (USE_TZ=True, TIME_ZONE=
    America/Chicago): stored values are UTC instants, date parts and naive literals are local."""
    return {"VP_DJANGO_TZ": TZ_NAME} if shard % 4 == 3 else {}


def tz_mode():
    import os
    return os.environ.get("VP_DJANGO_TZ")


def _to_stored(v):
    """The generated row values are LOCAL wall-clock times; with USE_TZ=True the database
    holds the UTC instant."""
    import datetime as dt
    if tz_mode() and isinstance(v, dt.datetime):
        from zoneinfo import ZoneInfo
        return v.replace(tzinfo=ZoneInfo(tz_mode())).astimezone(dt.timezone.utc).replace(tzinfo=None)
    return v


def load(rows):
    con = django_env.connection()
    with con.cursor() as cur:
        cur.execute("DELETE FROM t")
        import datetime as _dt
        us = _dt.timedelta(microseconds=1)
        cur.executemany("INSERT INTO t (id,a,b,c,s,u,d,flag,f,g,dd,m,iv) VALUES (%s,%s,%s,%s,%s,%s,%s,%s,%s,%s,%s,%s,%s)",
                        [tuple(sqlite_env._adapt(_to_stored(r.get(k))) if k != "g" or r.get(k) is None
                               else r[k].replace("-", "")          # UUIDField keeps 32 hex digits here
                               for k in sqlite_env.COLS) +
                         (None if r.get("iv") is None else r["iv"] // us,)      # DurationField: microseconds
                         for r in rows])


def select(text, rows):
    from odata_query.django import apply_odata_query
    M = django_env.models()
    load(rows)
    try:
        qs = apply_odata_query(M.T.objects.all(), text)
        return sorted(qs.values_list("id", flat=True))
    except exceptions.ODataException as e:
        raise SC.BackendError("refused", "%s: %s" % (type(e).__name__, e))
    except contracts.MonitorViolation as e:
        raise SC.BackendError("monitor", str(e)[:300])
    except Exception as e:
        raise SC.BackendError("raises", "%s: %s" % (type(e).__name__, str(e)[:160]))


def case_extra(text):
    from odata_query.django import apply_odata_query
    M = django_env.models()
    try:
        return {"sql": str(apply_odata_query(M.T.objects.all(), text).values_list("id").query)}
    except Exception as e:
        return {"sql": repr(e)[:200]}


def run(ctx):
    contracts.install_parse()
    contracts.install_visit_trace()
    contracts.install_infer()
    django_env.setup()
    rng = ctx.rng("c02")
    p = profile()
    maxd = ctx.pick(4, 6)
    dom = None
    if tz_mode():
        # local wall-clock values away from year 1 / 9999 (no UTC instant) and from the two DST
        # changes (no unique / no local time), but on both sides of local and UTC midnight
        import datetime as dt
        from ..gen import rows as RW
        dom = dict(RW.DOMAIN, d=[None, dt.datetime(2020, 1, 1, 0, 0, 0), dt.datetime(2019, 12, 31, 23, 59, 59),
                                 dt.datetime(2021, 6, 15, 12, 30, 45), dt.datetime(2000, 2, 29, 6, 7, 8),
                                 dt.datetime(2020, 1, 31, 21, 0, 0), dt.datetime(2020, 2, 1, 3, 0, 0),
                                 dt.datetime(2021, 6, 15, 19, 0, 0)])
        p.datetime_lits = ["2020-01-01T00:00:00", "2019-12-31T23:59:59", "2021-06-15T12:30:45",
                           "2000-02-29T06:07:08", "2020-02-01T00:00:00", "2020-01-31T21:00:00"]
        p.date_lits = ["2020-01-01", "2019-12-31", "2021-06-15", "2000-02-29", "2020-02-01", "2020-01-31"]
        # literals with an offset denote instants: the same instants as some stored values,
        # written with Z / whole-hour / half-hour / quarter-hour offsets of both signs
        from ..ref import odata_eval
        odata_eval.LOCAL_ZONE = tz_mode()
        aware = ["2020-01-01T06:00:00Z", "2020-01-01T11:30:00+05:30", "2020-01-01T02:30:00-03:30", "2020-01-01T05:30:00-00:30",
                 "2020-01-01T08:00:00+02:00", "2019-12-31T20:30:00-09:30", "2020-01-01T11:45:00+05:45", "2020-01-01T04:00:00-02:00",
                 "2021-06-15T17:30:45Z", "2021-06-15T14:00:45-03:30", "2020-02-01T03:00:00Z", "2020-01-31T23:30:00-03:30",
                 "2020-01-01T06:30:00+00:30", "2020-01-01T06:00:00+00:00", "2020-01-01T06:00:00-00:00"]
        d_, j = T.ident("d"), 0
        for lit in aware:
            for op in ("eq", "ne", "lt", "le", "gt", "ge"):
                for t in (("cmp", op, d_, T.lit("datetime", lit)), ("cmp", op, T.lit("datetime", lit), d_),
                          ("un", "not", ("cmp", op, d_, T.lit("datetime", lit))),
                          ("cmp", op, T.call("hour", d_), T.call("hour", T.lit("datetime", lit))),
                          ("cmp", "in", d_, T.lst(T.lit("datetime", lit), T.lit("datetime", aware[(j + 3) % len(aware)])))):
                    j += 1
                    SC.judge(ctx, t, rng, select, findings.django_semantic_triggers, "tz-aware-literals", cap=200,
                             extra_case=case_extra, profile=p, domain=dom)
        p.datetime_lits = p.datetime_lits + aware[:8]
        ctx.cls("django-config:USE_TZ=%s" % tz_mode())
        # dates as bounds of date(<field>), every comparator, both sides
        for j, op in enumerate(("eq", "ne", "lt", "le", "gt", "ge")):
            for dl in p.date_lits:
                for t in (("cmp", op, T.call("date", T.ident("d")), T.lit("date", dl)),
                          ("cmp", op, T.lit("date", dl), T.call("date", T.ident("d"))),
                          ("un", "not", ("cmp", op, T.call("date", T.ident("d")), T.lit("date", dl)))):
                    SC.judge(ctx, t, rng, select, findings.django_semantic_triggers, "tz-date-bounds", cap=200,
                             extra_case=case_extra, profile=p, domain=dom)
    else:
        ctx.cls("django-config:USE_TZ=False")
    for fname in sorted(DJANGO_FUNCS):
        if ctx.mine(sorted(DJANGO_FUNCS).index(fname)) or tz_mode():
            SC.judge(ctx, scalar.simple_filter_for(rng, p, fname), rng, select,
                     findings.django_semantic_triggers, "coverage", cap=200, extra_case=case_extra, profile=p,
                     domain=dom)
    if not tz_mode():
        SC.math_of_int_lane(ctx, ctx.rng("mathint"), select, findings.django_semantic_triggers, extra_case=case_extra, profile=p)
        SC.interval_lane(ctx, ctx.rng("interval"), select, findings.django_semantic_triggers, extra_case=case_extra, profile=p)
        # (comparisons, groups and negations as operands of eq / ne: only in this directed lane -
        # the random generator keeps them out because of the listed right-hand-lookup finding)
        p_ops = profile()
        p_ops.bool_cmp_atoms = True
        SC.bool_operand_lane(ctx, ctx.rng("boolops"), select, findings.django_semantic_triggers, extra_case=case_extra, profile=p_ops)
        SC.in_list_shape_lane(ctx, ctx.rng("inshape"), select, findings.django_semantic_triggers, extra_case=case_extra, profile=p)
        SC.nullable_key_lane(ctx, ctx.rng("nullkey"), select, findings.django_semantic_triggers, extra_case=case_extra, null_items=True)
        SC.int_vs_decimal_lane(ctx, ctx.rng("intdec"), select, findings.django_semantic_triggers, extra_case=case_extra, profile=p)
        SC.math_of_literal_lane(ctx, ctx.rng("mathlit"), select, findings.django_semantic_triggers, extra_case=case_extra, profile=p)
        SC.neutral_boolean_lane(ctx, ctx.rng("neutral"), select, findings.django_semantic_triggers, extra_case=case_extra, profile=p)
        SC.bracket_string_lane(ctx, ctx.rng("brackets"), select, findings.django_semantic_triggers, extra_case=case_extra, profile=p)
        SC.grouping_grid_lane(ctx, ctx.rng("grid"), select, findings.django_semantic_triggers, extra_case=case_extra, profile=p)
        SC.spelling_twin_lane(ctx, ctx.rng("twin"), select, findings.django_semantic_triggers, extra_case=case_extra, profile=p)
        SC.big_list_lane(ctx, ctx.rng("biglist"), select, findings.django_semantic_triggers,
                         ctx.pick(6, 60), profile=p)
        SC.machine_lane(ctx, ctx.rng("machine"), select, findings.django_semantic_triggers,
                        ctx.pick(40, 1000), extra_case=case_extra, profile=p)
    for i in range(ctx.pick(900, 30000)):
        if ctx.out_of_time():
            break
        t = scalar.gen_bool(rng, p, rng.randint(1, maxd))
        if T.size(t) > 70:
            continue
        SC.judge(ctx, t, rng, select, findings.django_semantic_triggers, "typed", cap=200,
                 extra_case=case_extra, profile=p, domain=dom)
        if i % 150 == 0:
            ctx.sample(dict(filter=to_text(t)[:200], **case_extra(to_text(t))))
    contracts.flush_counts(ctx)


def requirements(m):
    out = []
    c = m["counters"]
    if c.get("rows_compared", 0) < 10000:
        out.append("fewer than 10000 rows compared")
    need = ["kind:call:" + f for f in DJANGO_FUNCS] + \
           ["kind:" + k for k in ("add", "sub", "mul", "div", "mod", "eq", "ne", "lt", "le",
                                  "gt", "ge", "in", "and", "or", "not", "lit:null")]
    for k in need:
        if not m["classes"].get(k):
            out.append("construct never exercised: " + k)
    for cfg in ("django-config:USE_TZ=False", "django-config:USE_TZ=" + TZ_NAME):
        if not m["classes"].get(cfg):
            out.append("Django configuration never exercised: " + cfg)
    if c.get("trivial_filters", 0) > 0.8 * max(1, c.get("evaluations", 0)):
        out.append("more than 80% of the filters were trivial")
    return out


def replay(ctx, case):
    import random
    def tup(x):
        return tuple(tup(i) for i in x) if isinstance(x, list) else x
    django_env.setup()
    t = tup(case["term"])
    print(case_extra(to_text(t)))
    dom = None
    if tz_mode():
        import datetime as dt
        from ..ref import odata_eval
        odata_eval.LOCAL_ZONE = tz_mode()
        from ..gen import rows as RW
        dom = dict(RW.DOMAIN, d=[None, dt.datetime(2020, 1, 1, 0, 0, 0), dt.datetime(2019, 12, 31, 23, 59, 59),
                                 dt.datetime(2021, 6, 15, 12, 30, 45), dt.datetime(2000, 2, 29, 6, 7, 8),
                                 dt.datetime(2020, 1, 31, 21, 0, 0), dt.datetime(2020, 2, 1, 3, 0, 0),
                                 dt.datetime(2021, 6, 15, 19, 0, 0)])
    SC.judge(ctx, t, random.Random(0), select, lambda *a: [], "replay", cap=200, domain=dom)
