"""C08 - ORM backends pass every filter value to the database as a bound parameter.

Observation point: M-drv, the (sql, params) pair at the driver boundary (Django
connection.execute_wrapper, SQLAlchemy before_cursor_execute), not str(query).
Refuting events: for one filter skeleton and two assignments of its value literals the
SQL text differs; a marker value occurs in the SQL text; a value is missing from the
parameter list.
"""
import datetime as dt
import decimal
import uuid

import sqlalchemy as sa

from odata_query import exceptions

from .. import drive, findings
from ..envs import django_env, sqla_env
from ..gen import relational as R, scalar, terms as T
from ..gen.printer import to_text
from ..mon import contracts

RULE = ("filter skeletons from the ORM-supported scalar fragment (comparison operands, "
        "in-lists, every function argument incl. substring indices, guid and date columns) and "
        "from the relational grammar (navigation, lambdas), each instantiated with 2..3 "
        "assignments of its non-boolean, non-null literals (hostile strings with quotes / "
        "comment markers / wildcards, 9-digit integers, distinct dates and GUIDs; literal kinds "
        "and list lengths fixed), executed through Django, SQLAlchemy ORM (select and legacy "
        "Query) and SQLAlchemy Core with the driver hook on. distinct = distinct (skeleton, "
        "backend); non-trivial = skeleton has at least one value literal and the backend "
        "executed a statement")
RULE += (" " + 'Also: in-lists of 1000 and 2101 items; schema with partial / plain indexes, fixed-point column, Profile one-to-one.')
RULE += (" " + 'Value-magnitude lane: 13 skeletons x 7 magnitudes (integers beyond 32/53/63/64 bits, 10**30; strings of 300/5000/70000 characters) x 6 entry styles.')
RULE += (" " + 'Round-13: 8 float spellings by magnitude (exponent, near-max, beyond the double range, subnormal, underflow, beyond 2**53) x 6 float skeletons x every entry style.')
ASSUMPTIONS = ["booleans and null are rendered as SQL constants by design (excluded by the "
               "property's quantifier)",
               "values are searched in the driver parameters after the backend's own adaptation "
               "(datetime -> text, UUID -> hex, LIKE escaping)"]
SHARDS = {"quick": 12, "thorough": 16}
BUDGET_S = {"quick": 50, "thorough": 600}

STR_POOL = ["Zq7'--;x", "' OR 1=1 --", "a%b_c", "x\\y", "\"dq\"", "plain", "/*c*/", "ünï", ";DROP"]
VALUE_KINDS = ("int", "float", "str", "datetime", "date", "guid")


def profile():
    p = scalar.Profile()
    p.funcs = {"contains", "startswith", "endswith", "length", "indexof", "substring", "tolower",
               "toupper", "trim", "concat", "year", "month", "day", "hour", "minute", "second",
               "round", "floor", "ceiling"}
    p.columns = dict(scalar.SCHEMA, g="guid", dd="date")
    p.types = {"int", "float", "str", "bool", "datetime", "guid", "date"}
    p.neg = p.neg_literal = False
    p.bare_bool_column = False
    p.bool_cmp_atoms = False
    p.pattern_columns = True
    return p


INT_BASES = [918273645, 2 ** 31, 2 ** 53, 2 ** 63 - 10 ** 6, 2 ** 64, 2 ** 64 + 2 ** 40, 10 ** 30, 10 ** 19]
STR_PADS = ["", "", "p" * 300, "q" * 5000, "", "", "", "r" * 70000]
# fractional seconds of date-time values: none, fewer / exactly / more digits than the value type keeps
# spellings of float literals per magnitude: plain, exponent, near the largest double, beyond it (the
# value type turns those into inf), capital E, subnormal, below the smallest double (0.0), whole beyond 2**53
FLOAT_FORMS = ["%d.%d", "%d.%de5", "1.%d%de300", "1.%d%de309", "9.%d%dE999", "1.%d%de-320", "1.%d%de-400", "90071992%d.%d"]
DT_FRACS = ["", ".5", ".123", ".123456", ".1234567", ".123456789", ".123456789012", ".000000"]


def assign(t, k, mag=0):
    """Assignment number k of the value literals of skeleton t -> (term, [values]).
    mag > 0: the same, with integers of another magnitude (beyond 32 / 53 / 63 / 64 bits) and
    padded strings - a backend may treat values it thinks the driver cannot bind differently."""
    n = [0]
    vals = []

    def f(x):
        if x[0] != "lit" or x[1] not in VALUE_KINDS:
            return x
        n[0] += 1
        i = n[0] * 7 + k * 131
        kind = x[1]
        if kind == "int":
            v = str(INT_BASES[mag] + i)
            if x[2].startswith("-"):
                v = "-" + v
        elif kind == "float":
            v = FLOAT_FORMS[mag] % (73829164 + i, 25 + k)
            if x[2].startswith("-"):
                v = "-" + v
        elif kind == "str":
            v = STR_POOL[(n[0] + k * 3) % len(STR_POOL)] + STR_PADS[mag] + "#%d" % i
        elif kind == "datetime":
            v = "20%02d-07-%02dT1%d:2%d:3%d" % (31 + k, 1 + i % 27, k % 10, n[0] % 10, i % 10) + DT_FRACS[mag]
        elif kind == "date":
            v = "20%02d-08-%02d" % (41 + k, 1 + i % 27)
        else:
            v = str(uuid.UUID(int=(0xfeedface << 96) + i * 7919 + k))
        vals.append((kind, v))
        return ("lit", kind, v)
    return T.map_term(f, t), vals


def flat_params(params):
    out = []

    def go(p):
        if isinstance(p, (list, tuple)):
            for i in p:
                go(i)
        elif isinstance(p, dict):
            for i in p.values():
                go(i)
        else:
            out.append(p)
    go(params)
    return out


def value_in_params(kind, v, params):
    strs = [str(p) for p in params]
    if kind == "int":
        return any(isinstance(p, (int, float)) and not isinstance(p, bool) and int(p) == int(v)
                   or str(p) == v for p in params)
    if kind == "float":
        fv = float(v)
        tol = 1e-6 if abs(fv) < 1e9 else abs(fv) * 1e-12
        return any(isinstance(p, (int, float, decimal.Decimal)) and not isinstance(p, bool) and
                   (float(p) == fv or abs(float(p) - fv) < tol) or str(p) == v for p in params) or any(v in s for s in strs)
    if kind == "str":
        core = "".join(c for c in v if c not in "%_\\")

        def subseq(a, b):
            it = iter(b)
            return all(c in it for c in a)
        return any(isinstance(p, str) and subseq(core, p) for p in params)
    if kind == "guid":
        h = v.replace("-", "").lower()
        return any(h in s.replace("-", "").lower() for s in strs)
    if kind == "date":
        return any(v in s for s in strs)
    if kind == "datetime":
        d, tm = v.split("T")
        return any(d in s and tm[:8] in s for s in strs)     # (the value type keeps 6 fraction digits)
    return True


def marker_in_text(kind, v, sql):
    if kind in ("int", "float"):
        return v.lstrip("-") in sql
    if kind == "str":
        tail = v[v.rfind("#"):]
        return tail in sql or v in sql
    if kind == "guid":
        return v in sql or v.replace("-", "") in sql
    if kind == "datetime":
        return v.split("T")[0] in sql
    return v in sql


# --- backends: run and return (sql, params) of the filter-carrying statement --------------------
def run_django(model_name, text, how="instances"):
    from odata_query.django import apply_odata_query
    M = django_env.models()
    model = getattr(M, model_name)
    with django_env.driver_trace() as log:
        qs = apply_odata_query(model.objects.all(), text)
        # how the caller consumes the queryset decides which parts of it reach the statement
        # (annotations are dropped from a values_list / count, kept for model instances)
        if how == "instances":
            list(qs)
        elif how == "count":
            qs.count()
        else:
            list(qs.values_list("id", flat=True))
        stmts = [(s, p) for s, p in log if s.lstrip().upper().startswith("SELECT")]
    return stmts[-1] if stmts else None


def run_sqla(style, model_name, text):
    from odata_query.sqlalchemy import apply_odata_query, apply_odata_core
    model = getattr(sqla_env, model_name)
    with sqla_env.driver_trace() as log:
        if style == "orm-select":
            with sqla_env.session() as s:
                s.execute(apply_odata_query(sa.select(model.id), text)).all()
        elif style == "orm-query":
            with sqla_env.session() as s:
                apply_odata_query(s.query(model), text).all()
        else:
            with sqla_env.engine().connect() as con:
                con.execute(apply_odata_core(sa.select(model.__table__.c.id), text)).all()
        stmts = [(s, p) for s, p in log if s.lstrip().upper().startswith("SELECT")]
    return stmts[-1] if stmts else None


BACKENDS = {
    "django": lambda m, t: run_django(m, t),
    "django-values": lambda m, t: run_django(m, t, "values"),
    "django-count": lambda m, t: run_django(m, t, "count"),
    "sqla-orm-select": lambda m, t: run_sqla("orm-select", m, t),
    "sqla-orm-query": lambda m, t: run_sqla("orm-query", m, t),
    "sqla-core": lambda m, t: run_sqla("core", m, t),
}


def judge(ctx, t, model_name, backend, cls, mag=0):
    variants = [assign(t, k, mag) for k in range(3 if ctx.thorough() else 2)]
    if not variants[0][1]:
        return
    ctx.count("evaluations")
    outs = []
    for tv, vals in variants:
        text = to_text(tv)
        try:
            res = BACKENDS[backend](model_name, text)
        except exceptions.ODataException:
            ctx.count("refused")
            return
        except contracts.MonitorViolation as e:
            ctx.fail({"filter": text, "backend": backend}, "monitor fired", observed=str(e)[:300],
                     cls=cls, sig=["monitor"])
            return
        except Exception as e:
            ctx.count("backend_raised")
            ctx.cls("raised:" + type(e).__name__)
            return
        if res is None:
            ctx.count("no_statement_seen")
            return
        outs.append((text, vals, res[0], flat_params(res[1])))
    ctx.seen([to_text(t), backend])
    ctx.count("statements_observed", len(outs))
    ctx.cls("backend:" + backend)
    for k in T.kinds(t):
        ctx.cls("kind:" + k)
    case = {"skeleton": to_text(t), "backend": backend, "model": model_name, "mag": mag,
            "filters": [o[0][:400] for o in outs]}
    keys = findings.binding_triggers(t, backend)
    base_sql = outs[0][2]
    for text, vals, sql, params in outs:
        if sql != base_sql:
            ctx.fail(dict(case, sql_a=base_sql, sql_b=sql),
                     "compiled SQL differs between two literal assignments",
                     expected=base_sql, observed=sql, keys=keys, cls=cls, sig=["text-differs", backend])
            return
        for kind, v in vals:
            if marker_in_text(kind, v, sql):
                ctx.fail(dict(case, sql=sql), "a filter value is spliced into the SQL text",
                         expected="value only in the parameter list", observed={"value": v},
                         keys=keys, cls=cls, sig=["spliced", kind, backend])
                return
            ctx.count("values_checked")
            if not value_in_params(kind, v, params):
                ctx.fail(dict(case, sql=sql, params=[repr(p)[:60] for p in params][:20]),
                         "a filter value is missing from the driver's parameter list",
                         expected=v, observed=[repr(p)[:40] for p in params][:12], keys=keys,
                         cls=cls, sig=["missing", kind, backend])
                return


def codepoint_sweep(ctx, block):
    """Every Unicode code point (surrogates excepted: the driver cannot encode them) inside a
    string value, `block` consecutive code points per value: the statement text must be the one
    of the one-letter value, the value must arrive whole in the parameter list."""
    j = 0
    for start in range(0, 0x110000, block):
        body = "".join(chr(c) for c in range(start, min(start + block, 0x110000))
                       if c != 0x27 and not 0xD800 <= c <= 0xDFFF)
        if not body:
            continue
        for frame in ("s eq '%s'", "u in ('k', '%s')", "concat(s, '%s') eq u"):
            for backend in ("django", "django-values", "sqla-orm-select", "sqla-core"):
                j += 1
                if not ctx.mine(j):
                    continue
                try:
                    base = BACKENDS[backend]("T", frame % "x")
                    res = BACKENDS[backend]("T", frame % body)
                except exceptions.ODataException:
                    ctx.count("refused")
                    continue
                except Exception as e:
                    ctx.count("backend_raised")
                    ctx.cls("raised:" + type(e).__name__)
                    continue
                if base is None or res is None:
                    ctx.count("no_statement_seen")
                    continue
                ctx.count("evaluations")
                ctx.count("statements_observed", 2)
                ctx.count("sweep_codepoints", len(body))
                ctx.cls("codepoint-sweep")
                case = {"skeleton": frame % "x", "backend": backend, "model": "T", "block_start": "U+%04X" % start,
                        "block": block}
                if res[0] != base[0]:
                    ctx.fail(dict(case, sql_a=base[0][:300], sql_b=res[0][:300]), "compiled SQL differs with the string content",
                             cls="codepoint-sweep", sig=["sweep-text", backend])
                    continue
                params = [p for p in flat_params(res[1]) if isinstance(p, str)]
                ctx.count("values_checked")
                if not any(body in p for p in params):
                    ctx.fail(dict(case, sql=res[0][:300]), "string content does not arrive whole in the parameter list",
                             observed=[repr(p)[:60] for p in params][:6], cls="codepoint-sweep", sig=["sweep-param", backend])


def run(ctx):
    contracts.install_parse()
    contracts.install_visit_trace()
    django_env.setup()
    sqla_env.engine()
    rng = ctx.rng("c08")
    p = profile()
    # a few rows so statements really execute against data
    from ..gen import rows as RW
    rows = RW.rows_for(["a", "s", "d"], rng, 30)
    from .c02 import load as dj_load
    dj_load(rows)
    sqla_env.load_scalar(rows)
    inst = R.canonical_instance()
    django_env.load_relational(inst)
    sqla_env.load_relational(inst)
    # in-lists of many lengths (a backend may switch strategy above some size)
    lengths = ctx.pick([1, 2, 7, 64, 101, 150, 260, 1000, 2101],
                       [1, 2, 3, 7, 33, 64, 100, 101, 128, 150, 257, 500, 999, 1000, 1001, 2100, 2101, 5000])
    jj = 0
    for j, n_items in enumerate(lengths):
        for col, kind in (("a", "int"), ("s", "str"), ("g", "guid"), ("dd", "date")):
            lst = ("list", tuple(T.lit(kind, scalar.LITS[kind][0] if kind != "str" else "x")
                                 for _ in range(n_items)))
            t = ("bool", "or", ("cmp", "in", T.ident(col), lst), ("cmp", "eq", T.ident("b"), T.I(1)))
            for b in BACKENDS:
                jj += 1
                if ctx.mine(jj):        # spread (length, column, entry style) cells over the shards
                    judge(ctx, t, "T", b, "in-list-%d" % n_items)
                    ctx.cls("in-list-length:%d" % n_items)
    # predicates as OPERANDS of a comparison (either side, both sides), at the root and under
    # not: the shapes for which a backend may build helper expressions of its own
    s_, u_, a_, fl = T.ident("s"), T.ident("u"), T.ident("a"), T.ident("flag")
    preds = [T.call("contains", s_, T.S("x")), T.call("startswith", u_, T.S("How")), T.call("endswith", s_, T.S("z")),
             ("cmp", "gt", a_, T.I(5)), ("cmp", "in", a_, T.lst(T.I(1), T.I(7))), ("cmp", "eq", s_, T.S("q"))]
    k = 0
    for l in preds + [fl, T.lit("bool", "true")]:
        for r in preds + [fl, T.lit("bool", "false")]:
            if l[0] in ("id", "lit") and r[0] in ("id", "lit"):
                continue
            for op in ("eq", "ne"):
                k += 1
                if not ctx.mine(k):
                    continue
                t = ("cmp", op, l, r)
                wraps = (t, ("un", "not", t)) if k % 3 else (t, ("bool", "and", t, ("cmp", "eq", T.ident("b"), T.I(1))))
                for wrap in wraps:
                    for b in ("django", "django-values", "sqla-orm-select", "sqla-core"):
                        judge(ctx, wrap, "T", b, "predicate-operands")
    ctx.cls("predicate-operands")
    # value magnitudes: every literal position of a few skeletons, integers beyond 32/53/63/64
    # bits and long strings (a driver refusing to bind a value is "not judged", a statement that
    # does reach the driver must carry the value as a parameter all the same)
    b_, f_ = T.ident("b"), T.ident("f")
    skels = [("cmp", "lt", a_, T.I(1)), ("cmp", "in", a_, T.lst(T.I(1), T.I(2))), ("cmp", "eq", ("bin", "add", a_, T.I(1)), b_),
             ("cmp", "eq", ("bin", "mul", T.I(1), a_), T.I(2)), ("cmp", "eq", T.call("length", s_), T.I(1)),
             ("cmp", "eq", T.call("indexof", s_, T.S("x")), T.I(1)), ("cmp", "eq", s_, T.S("x")),
             ("cmp", "in", s_, T.lst(T.S("x"), T.S("y"))), T.call("contains", s_, T.S("x")),
             ("cmp", "eq", T.call("concat", s_, T.S("x")), u_), ("bool", "or", ("cmp", "gt", a_, T.I(1)), ("cmp", "eq", s_, T.S("x"))),
             ("cmp", "eq", ("bin", "sub", T.I(1), T.I(2)), a_), ("un", "not", ("cmp", "ge", a_, T.I(1))),
             ("cmp", "gt", T.ident("d"), T.lit("datetime", "2020-01-01T00:00:00")),
             ("cmp", "in", T.ident("d"), T.lst(T.lit("datetime", "2020-01-01T00:00:00"), T.lit("datetime", "2020-01-01T00:00:00"))),
             ("bool", "and", ("cmp", "le", T.lit("datetime", "2020-01-01T00:00:00"), T.ident("d")), ("cmp", "eq", a_, T.I(1))),
             # float literals in every position (the spelling follows the magnitude: FLOAT_FORMS)
             ("cmp", "lt", f_, T.lit("float", "1.5")), ("cmp", "in", f_, T.lst(T.lit("float", "1.5"), T.lit("float", "2.5"))),
             ("cmp", "gt", ("bin", "add", f_, T.lit("float", "1.5")), T.lit("float", "2.5")),
             ("cmp", "le", T.lit("float", "-1.5"), ("bin", "mul", f_, T.lit("float", "2.5"))),
             ("un", "not", ("cmp", "eq", T.call("round", f_), T.lit("float", "1.5"))),
             ("bool", "or", ("cmp", "ne", f_, T.lit("float", "1.5")), ("cmp", "eq", a_, T.lit("float", "2.5")))]
    # a column whose type declares a collation (SQLAlchemy schema only): every string position
    sc_ = T.ident("sc")
    kk = 0
    for t in (T.call("startswith", sc_, T.S("x")), T.call("contains", sc_, T.S("x")), T.call("endswith", sc_, T.S("x")),
              ("cmp", "eq", sc_, T.S("x")), ("cmp", "in", sc_, T.lst(T.S("x"), T.S("y"))), ("cmp", "eq", T.call("tolower", sc_), T.S("x")),
              ("cmp", "eq", T.call("concat", sc_, T.S("x")), T.S("y")), ("cmp", "ge", T.call("indexof", sc_, T.S("x")), T.I(1)),
              ("un", "not", T.call("startswith", sc_, T.S("x"))), ("cmp", "eq", T.call("startswith", sc_, T.S("x")), T.lit("bool", "true")),
              ("bool", "or", T.call("startswith", sc_, T.S("x")), T.call("startswith", s_, T.S("y"))), ("cmp", "lt", sc_, T.S("x"))):
        for b in ("sqla-orm-select", "sqla-orm-query", "sqla-core"):
            kk += 1
            if ctx.mine(kk):
                judge(ctx, t, "T", b, "collated-column")
                ctx.cls("collated-column")
    k = 0
    for mag in range(1, len(INT_BASES)):
        for t in skels:
            for b in BACKENDS:
                k += 1
                if ctx.mine(k):
                    judge(ctx, t, "T", b, "magnitude-%d" % mag, mag)
                    ctx.cls("value-magnitude:%d" % mag)
    codepoint_sweep(ctx, ctx.pick(8192, 1024))
    n = ctx.pick(260, 5000)
    for i in range(n):
        if ctx.out_of_time():
            break
        if i % 3 == 2:
            entity = "post" if rng.random() < 0.7 else "author"
            t = R.gen_filter(rng, entity, rng.randint(0, 2))
            model = entity.capitalize()
            backends = ["django", "django-values", "sqla-orm-select", "sqla-orm-query"]
            cls = "relational"
        else:
            t = scalar.gen_bool(rng, p, rng.randint(1, 4))
            model = "T"
            backends = list(BACKENDS)
            cls = "scalar"
        if T.size(t) > 60:
            continue
        for b in backends:
            judge(ctx, t, model, b, cls)
        if i % 80 == 0:
            tv, vals = assign(t, 0)
            try:
                ctx.sample({"filter": to_text(tv)[:200], "driver": [repr(x)[:300] for x in
                                                                    (BACKENDS["django"](model, to_text(tv)) or ())]})
            except Exception:
                pass
    contracts.flush_counts(ctx)


def requirements(m):
    out = []
    c = m["counters"]
    if c.get("statements_observed", 0) < 500:
        out.append("driver hook saw fewer than 500 statements")
    if c.get("values_checked", 0) < 500:
        out.append("fewer than 500 values checked")
    for b in BACKENDS:
        if not m["classes"].get("backend:" + b):
            out.append("backend never observed at the driver: " + b)
    for k in ("kind:in", "kind:call:substring", "kind:call:contains", "kind:lit:guid",
              "kind:lit:date", "kind:lit:datetime", "kind:lam:any", "kind:attr"):
        if not m["classes"].get(k):
            out.append("construct never exercised: " + k)
    return out


def replay(ctx, case):
    django_env.setup()
    sqla_env.engine()
    t = drive.parse_term(case["skeleton"])[1]
    judge(ctx, t, case["model"], case["backend"], "replay", case.get("mag", 0))
