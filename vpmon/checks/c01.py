"""C01 - the SQLite WHERE clause selects exactly the rows the OData filter denotes.

Refuting event: for a generated filter and row, `SELECT id FROM t WHERE <SQLite dialect
output>` on a real in-memory SQLite returns the row although the reference evaluator says
FALSE/NULL, omits it although it says TRUE, or fails to execute.  Metamorphic second
oracle: minimally vs fully parenthesised text of one term select the same ids.
"""
import sqlite3

from odata_query import exceptions
from odata_query.sql.sqlite import AstToSqliteSqlVisitor

from .. import drive, findings
from ..envs import sqlite_env
from ..gen import scalar, terms as T
from ..gen.printer import to_text
from ..mon import contracts
from . import scalar_common as SC

RULE = ("typed Bool-rooted filters (depth 1..4 quick / 1..6 thorough) over every operator "
        "and every function the SQLite dialect implements (contains startswith endswith "
        "length indexof substring(2,3) tolower toupper trim concat year month day hour "
        "minute date now round floor ceiling), arithmetic on either side, literals on either "
        "side, in-lists incl. singletons, eq/ne null, and/or/not, boolean functions bare and "
        "compared to true/false; rows = cross product of adversarial per-column domains over "
        "the referenced columns (NULL, negatives, zero, empty and metacharacter strings), "
        "<= 400 per filter. distinct = distinct filter text; non-trivial = selects at least "
        "one judged row and rejects at least one")
RULE += (" " + 'Added lanes: machine numbers (Int64 extremes, non-dyadic fractions, integer groups under float arithmetic, comparison value produced by the source grouping); long in-lists (33..1500) under and/or/not; same-field comparison chains; repeated operands; exponent-notation and literal-like strings; fixed-point column; year 1/9999.')
RULE += (" " + "Round-10 lanes: 1..8 stacked unary minus signs x 8 operand kinds x 8 operator positions; numeric-spelling twins (X conn X' with one number respelled 2 <-> 2.0); every bracketing of 3/4-operand add/mul chains x every int/float operand pattern; groups of groups with every ordered pair of 15 bracket/quote/comment strings in the first and last sub-group.")
RULE += (" " + 'Rounds 13-14: NULLable column of every kind x eq / ne both orders, in, null tests, in-lists holding a null literal x 7 negation wrappers.')
ASSUMPTIONS = ["reference evaluator vpmon/ref/odata_eval.py; UNSPEC rows (division by zero, "
               "inexact negative div, mod with negatives, out-of-range substring, concat "
               "with NULL, ASCII case-insensitive LIKE differences, non-ASCII case mapping) "
               "are excluded and counted",
               "SQLite 3.40.1 with math functions; datetimes stored as 'YYYY-MM-DD HH:MM:SS'"]
SHARDS = {"quick": 12, "thorough": 16}
BUDGET_S = {"quick": 55, "thorough": 800}

SQLITE_FUNCS = {"contains", "startswith", "endswith", "length", "indexof", "substring",
                "tolower", "toupper", "trim", "concat", "year", "month", "day", "hour",
                "minute", "date", "now", "round", "floor", "ceiling"}


def profile(finding_lane=False):
    p = scalar.Profile()
    p.funcs = set(SQLITE_FUNCS)
    p.columns = dict(scalar.SCHEMA, m="decimal")
    p.types = {"int", "float", "str", "bool", "datetime", "decimal"}
    p.bare_bool_literal = True
    p.null_left = True
    # clean lane: no LIKE wildcards in pattern literals, no non-literal patterns (known
    # findings); the finding lane generates them on purpose
    if not finding_lane:
        p.pattern_columns = False
        p.pattern_exprs = False
        p.str_lits = [s for s in scalar.STR_LITS if "%" not in s and "_" not in s]
    return p


def select(text, rows):
    o = drive.parse_ast(text)
    if o[0] != "ok":
        raise SC.BackendError("parse", "%s %s" % (o[1], str(o[2])[:100]))
    try:
        where = AstToSqliteSqlVisitor().visit(o[1])
    except exceptions.ODataException as e:
        raise SC.BackendError("refused", "%s: %s" % (type(e).__name__, e))
    except contracts.MonitorViolation as e:
        raise SC.BackendError("monitor", str(e)[:300])
    except Exception as e:
        raise SC.BackendError("visitor-raises", "%s: %s" % (type(e).__name__, str(e)[:100]))
    sqlite_env.load(rows)
    try:
        return sqlite_env.select_ids(where)
    except (sqlite3.Error, ValueError) as e:
        raise SC.BackendError("execute", "%s | %s" % (str(e)[:120], where[:300]))


def case_extra(text):
    o = drive.parse_ast(text)
    try:
        return {"sql": AstToSqliteSqlVisitor().visit(o[1])}
    except Exception as e:
        return {"sql": repr(e)}


NULLKEY_KINDS = ("date", "str", "int", "datetime", "bool", "guid")


def run(ctx):
    contracts.install_parse()
    contracts.install_visit_trace()
    contracts.install_infer()
    rng = ctx.rng("c01")
    clean, lane2 = profile(False), profile(True)
    maxd = ctx.pick(4, 6)
    n = ctx.pick(2500, 60000)
    for fname in sorted(SQLITE_FUNCS):
        if ctx.mine(sorted(SQLITE_FUNCS).index(fname)):
            SC.judge(ctx, scalar.simple_filter_for(rng, lane2, fname), rng, select,
                     findings.sqlite_semantic_triggers, "coverage", extra_case=case_extra, profile=lane2)
    SC.math_of_int_lane(ctx, ctx.rng("mathint"), select, findings.sqlite_semantic_triggers, extra_case=case_extra, profile=clean)
    SC.bool_operand_lane(ctx, ctx.rng("boolops"), select, findings.sqlite_semantic_triggers, extra_case=case_extra, profile=clean)
    SC.in_list_shape_lane(ctx, ctx.rng("inshape"), select, findings.sqlite_semantic_triggers, extra_case=case_extra, profile=clean)
    SC.nullable_key_lane(ctx, ctx.rng("nullkey"), select, findings.sqlite_semantic_triggers, extra_case=case_extra,
                         kinds=NULLKEY_KINDS, null_items=True)
    SC.int_vs_decimal_lane(ctx, ctx.rng("intdec"), select, findings.sqlite_semantic_triggers, extra_case=case_extra, profile=clean)
    SC.math_of_literal_lane(ctx, ctx.rng("mathlit"), select, findings.sqlite_semantic_triggers, extra_case=case_extra, profile=clean)
    SC.neutral_boolean_lane(ctx, ctx.rng("neutral"), select, findings.sqlite_semantic_triggers, extra_case=case_extra, profile=clean)
    SC.bracket_string_lane(ctx, ctx.rng("brackets"), select, findings.sqlite_semantic_triggers, extra_case=case_extra, profile=clean)
    SC.grouping_grid_lane(ctx, ctx.rng("grid"), select, findings.sqlite_semantic_triggers, extra_case=case_extra, profile=clean)
    SC.spelling_twin_lane(ctx, ctx.rng("twin"), select, findings.sqlite_semantic_triggers, extra_case=case_extra, profile=clean)
    SC.neg_stack_lane(ctx, ctx.rng("negstack"), select, findings.sqlite_semantic_triggers, extra_case=case_extra,
                      profile=clean, depth=ctx.pick(8, 12))
    SC.big_list_lane(ctx, ctx.rng("biglist"), select, findings.sqlite_semantic_triggers,
                     ctx.pick(6, 60), profile=clean)
    SC.machine_lane(ctx, ctx.rng("machine"), select, findings.sqlite_semantic_triggers,
                    ctx.pick(60, 1500), extra_case=case_extra, profile=clean)
    for i in range(n):
        if ctx.out_of_time():
            break
        finding_lane = (i % 6 == 5)
        p = lane2 if finding_lane else clean
        t = scalar.gen_bool(rng, p, rng.randint(1, maxd))
        if T.size(t) > 90:
            continue
        ok = SC.judge(ctx, t, rng, select, findings.sqlite_semantic_triggers,
                      "finding-lane" if finding_lane else "clean", extra_case=case_extra, profile=p)
        # metamorphic: full parenthesisation selects the same ids
        clock = any(n[0] == "call" and n[1] == "now" for n in T.walk(t))   # two runs = two moments
        if ok and i % 5 == 0 and not clock:
            rows = __import__("vpmon.gen.rows", fromlist=["x"]).rows_for(scalar.columns_of(t), rng, 120)
            try:
                a = select(to_text(t, "min"), rows)
                b = select(to_text(t, "full"), rows)
                ctx.count("metamorphic_pairs")
                if a != b:
                    ctx.fail({"filter": to_text(t), "full": to_text(t, "full")},
                             "min- and full-parenthesised text select different rows",
                             expected=a, observed=b, cls="metamorphic", sig=["meta"])
            except SC.BackendError:
                pass
        if i % 150 == 0:
            ctx.sample(dict(filter=to_text(t)[:200], **case_extra(to_text(t))))
    contracts.flush_counts(ctx)


def requirements(m):
    out = []
    c = m["counters"]
    if c.get("rows_compared", 0) < 10000:
        out.append("fewer than 10000 rows compared")
    need = ["kind:call:" + f for f in SQLITE_FUNCS] + \
           ["kind:" + k for k in ("add", "sub", "mul", "div", "mod", "neg", "eq", "ne", "lt", "le",
                                  "gt", "ge", "in", "and", "or", "not", "lit:null")]
    for k in need:
        if not m["classes"].get(k):
            out.append("construct never exercised: " + k)
    if c.get("trivial_filters", 0) > 0.8 * max(1, c.get("evaluations", 0)):
        out.append("more than 80% of the filters were trivial")
    return out


def replay(ctx, case):
    import random
    def tup(x):
        return tuple(tup(i) for i in x) if isinstance(x, list) else x
    contracts.install_visit_trace()
    t = tup(case["term"])
    print(case_extra(to_text(t)))
    SC.judge(ctx, t, random.Random(0), select, lambda *a: [], "replay")
