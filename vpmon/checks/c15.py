"""C15 - shorthands conjoin the filter with the incoming query and leave the host intact.

Refuting events: (a) ids (and their order, when the base is ordered) of shorthand(base, f)
differ from [x in execute(base) if ref(f, x) is TRUE]; (b) the statement seen at the driver
joins a relationship's target more often than base + filter require, or a result row is
duplicated beyond what the base itself returns; (c) offline check over import histories:
(type, compiled text, .type) of sqlalchemy.func.<name>(col) differ between a control
process that never imports odata_query, one that uses func before the import, and one
that uses it after.
"""
import collections
import json
import os
import re
import subprocess
import sys

import sqlalchemy as sa

from odata_query import exceptions

from .. import drive, findings
from ..envs import django_env, sqla_env
from ..gen import relational as R, terms as T
from ..gen.printer import to_text
from ..mon import contracts

RULE = ("base queries: SQLAlchemy select / legacy Query - unfiltered, pre-filtered, ordered, "
        "column subsets, pre-joined on the relationship the filter uses (by relationship, by "
        "target, explicit ON, inner and outer), pre-joined on an unrelated collection, already "
        "carrying an OData filter; Django Manager / QuerySet - filtered, excluded, ordered, "
        "annotated, select_related, already OData-filtered; x relational and plain filters "
        "(root Post) x canonical + random instances; import histories {control, func used "
        "before import, after import} x 12 function names in fresh processes. distinct = "
        "distinct (base, filter, instance); non-trivial = base returns rows and the filter "
        "keeps some and drops some of them")
RULE += (" " + 'Also: bases rooted at aliased() entities (6 kinds); Post.home NOT NULL, dangling keys (SQLAlchemy), relationship name shared by two entities, Profile one-to-one.')
RULE += (" " + 'Bases joining an aliased related entity (other route, ON clause, along the relationship, legacy Query) x 9 fixed filters per instance.')
ASSUMPTIONS = ["LIMIT/OFFSET bases are excluded (SQLAlchemy's generative where and Django's "
               "'cannot filter once sliced' define those, not this library)",
               "reference evaluation over the object graph (vpmon/gen/relational.py)"]
SHARDS = {"quick": 10, "thorough": 16}
BUDGET_S = {"quick": 50, "thorough": 600}


# --- SQLAlchemy bases: name -> (builder(session) -> query, ordered?, how ids are read) ---------
def sqla_bases():
    P, A, C = sqla_env.Post, sqla_env.Author, sqla_env.Comment
    B = collections.OrderedDict()
    B["select-id"] = (lambda s: sa.select(P.id), False)
    B["select-entity"] = (lambda s: sa.select(P), False)
    B["select-columns"] = (lambda s: sa.select(P.id, P.title), False)
    B["prefiltered"] = (lambda s: sa.select(P.id).where(P.rating >= 5), False)
    B["prefiltered-or"] = (lambda s: sa.select(P.id).where(sa.or_(P.rating < 5, P.title == "x")), False)
    B["ordered"] = (lambda s: sa.select(P.id).order_by(P.title.desc(), P.id), True)
    B["ordered-filtered"] = (lambda s: sa.select(P.id).where(P.id > 2).order_by(P.rating, P.id.desc()), True)
    B["joined-rel-inner"] = (lambda s: sa.select(P.id).join(P.author), False)
    B["joined-rel-outer"] = (lambda s: sa.select(P.id).join(P.author, isouter=True), False)
    B["joined-target"] = (lambda s: sa.select(P.id).join(A), False)
    B["joined-on"] = (lambda s: sa.select(P.id).join(A, P.author_id == A.id), False)
    B["joined-rel-filtered"] = (lambda s: sa.select(P.id).join(P.author).where(A.age >= 5), False)
    B["joined-unrelated"] = (lambda s: sa.select(P.id).join(P.comments).where(C.score >= 5), False)
    B["query"] = (lambda s: s.query(P), False)
    B["query-filtered"] = (lambda s: s.query(P).filter(P.rating >= 5), False)
    B["query-ordered"] = (lambda s: s.query(P).order_by(P.title, P.id.desc()), True)
    B["query-joined-rel"] = (lambda s: s.query(P).join(P.author), False)
    B["query-joined-rel-outer"] = (lambda s: s.query(P).join(P.author, isouter=True), False)
    # the selected entity is NOT the first thing in the FROM chain
    B["select-from-other"] = (lambda s: sa.select(P.id).select_from(A).join(A.posts), False)
    B["select-from-join"] = (lambda s: sa.select(P.id).select_from(sa.join(A, P, P.author_id == A.id)), False)
    B["select-from-self"] = (lambda s: sa.select(P.id).select_from(P), False)
    B["query-select-from-other"] = (lambda s: s.query(P).select_from(A).join(A.posts), False)
    B["joined-rel-outer-with-column"] = (lambda s: sa.select(P, A.name).join(P.author, isouter=True), False)
    # the root entity is an alias of the mapped class (plain, pre-filtered, over a subquery)
    from sqlalchemy.orm import aliased

    def al(f):
        return lambda s: f(s, aliased(P))
    B["aliased-select-id"] = (al(lambda s, PA: sa.select(PA.id)), False)
    B["aliased-select-entity"] = (al(lambda s, PA: sa.select(PA)), False)
    B["aliased-filtered"] = (al(lambda s, PA: sa.select(PA.id).where(PA.rating >= 5)), False)
    B["aliased-ordered"] = (al(lambda s, PA: sa.select(PA.id).order_by(PA.title.desc(), PA.id)), True)
    B["aliased-query"] = (al(lambda s, PA: s.query(PA)), False)
    B["aliased-over-subquery"] = (
        lambda s: (lambda PA: sa.select(PA.id))(aliased(P, sa.select(P).where(P.rating >= 5).subquery())), False)
    # an ALIASED related entity joined by the base along one route while the filter navigates to the same
    # entity class along the same or another route: what the base joined under an alias serves the base only
    K = sqla_env.Country
    B["joined-aliased-country-via-author"] = (lambda s: (lambda CA: sa.select(P.id).join(P.author).join(CA, A.country))(aliased(K)), False)
    B["joined-aliased-country-on"] = (lambda s: (lambda CA: sa.select(P.id).join(CA, P.home_id == CA.id))(aliased(K)), False)
    B["joined-aliased-author-rel"] = (lambda s: (lambda AA: sa.select(P.id).join(AA, P.author).where(AA.age >= 0))(aliased(A)), False)
    B["query-joined-aliased-country-via-author"] = (lambda s: (lambda CA: s.query(P).join(P.author).join(CA, A.country))(aliased(K)), False)
    return B


ALIASED_ROUTE_FILTERS = ["home/name ne 'zz9'", "home/code ge 0 and rating ge 0", "author/country/name ne 'zz9'",
                         "author/name eq null", "author/name ne 'zz9' or home/name eq 'zz9'",
                         "home/name eq null or rating lt 0", "not (author/country/code lt 0)",
                         "home/region/name ne 'zz9'", "author/age ge 0 and home/code ge 0"]


def sqla_ids(session, q):
    if isinstance(q, sa.orm.Query):
        return [o.id for o in q.all()]
    rows = session.execute(q).all()
    out = []
    for r in rows:
        v = r[0]
        out.append(v.id if hasattr(v, "id") and not isinstance(v, int) else v)
    return out


def django_bases():
    from django.db.models import Count, F, Q
    M = django_env.models()
    P = M.Post
    B = collections.OrderedDict()
    B["manager"] = (lambda: P.objects, False)
    B["all"] = (lambda: P.objects.all(), False)
    B["filtered"] = (lambda: P.objects.filter(rating__gte=5), False)
    B["filtered-q"] = (lambda: P.objects.filter(Q(rating__lt=5) | Q(title="x")), False)
    B["excluded"] = (lambda: P.objects.exclude(title="x"), False)
    B["ordered"] = (lambda: P.objects.order_by("-title", "id"), True)
    B["ordered-filtered"] = (lambda: P.objects.filter(id__gt=2).order_by("rating", "-id"), True)
    B["annotated"] = (lambda: P.objects.annotate(n=Count("comments")).filter(n__gte=1), False)
    B["annotated-expr"] = (lambda: P.objects.annotate(r2=F("rating") * 2).filter(r2__gte=10), False)
    B["select-related"] = (lambda: P.objects.select_related("author"), False)
    B["joined-filter"] = (lambda: P.objects.filter(author__age__gte=5), False)
    B["values-base"] = (lambda: P.objects.filter(author__isnull=False), False)
    # managers that are NOT the model's default manager
    B["custom-manager"] = (lambda: P.visible, False)
    B["custom-manager-all"] = (lambda: P.visible.all(), False)
    B["related-manager"] = (lambda: M.Author.objects.order_by("id").first().posts, False)
    B["related-manager-all"] = (lambda: M.Author.objects.order_by("-id").first().posts.all(), False)
    B["m2m-manager"] = (lambda: M.Tag.objects.order_by("id").first().posts, False)
    return B


def join_count(sql, table):
    # (joins of an anonymous alias - `JOIN country AS country_1` - are the mapper's own eager
    # loading of a lazy="joined" relationship: they serve the entity, not the filter)
    return len(re.findall(r"JOIN\s+\"?%s\"?(?!\s+AS\s+\"?%s_\d+)(?:\s|$)" % (table, table), sql, flags=re.I))


def rels_used(t):
    """-> {table: number of distinct to-one relationships (entity, name) leading to it that
    the filter navigates from the Post root outside lambdas} - each needs one JOIN."""
    used = set()

    def walk(n, bound):
        if n[0] in ("id", "attr"):
            parts = R.path_parts(n)
            if parts[0] in bound:
                return
            entity = "post"
            for seg in parts:
                target = R.TO_ONE.get(entity, {}).get(seg)
                if target is None:
                    break
                used.add((entity, seg, target))
                entity = target
            return
        if n[0] == "lam":
            walk(n[1], bound)
            if n[4] is not None:
                walk(n[4], bound | {n[3]})
            return
        for c in T.children(n):
            walk(c, bound)
    walk(t, frozenset())
    need = {}
    for _, _, target in used:
        need[target] = need.get(target, 0) + 1
    return need


def judge(ctx, graph, inst_name, kind, bname, base_fn, ordered, t, twice=False):
    text = to_text(t)
    ev = R.RelEval(graph)
    posts = {r["id"]: r for r in graph.inst["post"]}
    ctx.count("evaluations")
    ctx.cls("base:%s:%s" % (kind, bname))
    case = {"orm": kind, "base": bname, "filter": text, "instance": inst_name,
            "applied_twice": twice}
    try:
        if kind == "sqlalchemy":
            from odata_query.sqlalchemy import apply_odata_query
            with sqla_env.session() as s:
                base_ids = sqla_ids(s, base_fn(s))
                with sqla_env.driver_trace() as log:
                    q = apply_odata_query(base_fn(s), text)
                    if twice:
                        q = apply_odata_query(q, text)
                    got = sqla_ids(s, q)
                    stmts = [x for x in log if x[0].lstrip().upper().startswith("SELECT")]
        else:
            from odata_query.django import apply_odata_query
            try:
                base_ids = list(base_fn().values_list("id", flat=True))
            except AttributeError:
                ctx.count("base_not_available")    # e.g. no author / tag in this instance
                return
            with django_env.driver_trace() as log:
                q = apply_odata_query(base_fn(), text)
                if twice:
                    q = apply_odata_query(q, text)
                got = list(q.values_list("id", flat=True))
                stmts = [x for x in log if x[0].lstrip().upper().startswith("SELECT")]
    except exceptions.ODataException:
        ctx.count("refused")
        return
    except contracts.MonitorViolation as e:
        ctx.fail(case, "monitor fired", observed=str(e)[:300], cls=kind, sig=["monitor"])
        return
    except Exception as e:
        keys = findings.shorthand_triggers(kind, bname, t)
        targets = findings._to_one_targets(t, "post")
        # entities the base query itself already has in its FROM chain without the shorthand
        # being able to tell (they were not joined THROUGH the relationship the filter uses)
        base_has = {"select-from-other": {"author"}, "select-from-join": {"author"},
                    "query-select-from-other": {"author"}}.get(bname, set())
        if kind == "sqlalchemy" and "ambiguous column" in str(e) and \
                (any(len(v) > 1 for v in targets.values()) or any(tb in targets for tb in base_has)):
            # the listed mechanism only: an execution error for a filter that reaches one
            # entity through two different to-one paths
            keys = keys + ["sqla-same-entity-via-two-paths"]
        ctx.fail(case, "shorthand raised on a base query: " + type(e).__name__,
                 observed=str(e)[:300], keys=keys,
                 cls=kind, sig=["raises", type(e).__name__, bname])
        return
    truth = {i: ev.truth(t, "post", posts[i]) for i in set(base_ids)}
    if any(v is R.UNSPEC for v in truth.values()):
        ctx.count("unspec_skipped")
        return
    expected = [i for i in base_ids if truth[i] is True]
    if 0 < len(expected) < len(base_ids):
        ctx.seen([kind, bname, text, inst_name, twice])
    sql = stmts[-1][0] if stmts else ""
    case["sql"] = sql
    keys = findings.shorthand_triggers(kind, bname, t)
    ok = (got == expected) if ordered else (sorted(got) == sorted(expected))
    if not ok:
        ctx.fail(case, "result is not the rows of the base query that satisfy the filter"
                 + (" (order)" if ordered and sorted(got) == sorted(expected) else ""),
                 expected=expected, observed=got, keys=keys, cls=kind,
                 sig=["rows", kind, bname])
        return
    ctx.count("results_compared")
    if not sql:
        return
    need = rels_used(t)
    base_sql_joins = {"author": 1 if "join" in bname and "unrelated" not in bname and kind == "sqlalchemy" else 0}
    for table in ("author", "country", "region"):
        n = join_count(sql, table)
        allowed = max(base_sql_joins.get(table, 0), need.get(table, 0))
        # a relationship the base already joins (by relationship, by target or with an
        # explicit ON clause) must not be joined a second time
        if kind == "django":
            continue        # Django reuses / trims joins itself; only rows are judged
        ctx.count("join_counts_checked")
        if n > allowed:
            ctx.fail(case, "relationship target joined more often than base + filter require",
                     expected={"table": table, "max_joins": allowed}, observed={"joins": n},
                     keys=keys, cls=kind, sig=["joins", bname, table])
            return


CHILD = r"""
import sys, json
mode = sys.argv[1]
import sqlalchemy as sa
from sqlalchemy.dialects import sqlite, postgresql
NAMES = ["lower", "upper", "substr", "strpos", "ltrim", "rtrim", "ceil", "floor", "round",
         "count", "max", "coalesce", "char_length", "concat", "now",
         # a wide net of other names a host application may use
         "length", "trim", "replace", "abs", "sum", "min", "avg", "substring", "position",
         "instr", "ceiling", "trunc", "sqrt", "power", "mod", "sign", "date", "time", "year",
         "month", "day", "hour", "minute", "second", "extract", "strftime", "date_trunc",
         "nullif", "ifnull", "greatest", "least", "left", "right", "lpad", "rpad", "reverse",
         "md5", "random", "current_date", "current_timestamp", "localtime", "to_char", "cast_",
         "array_agg", "string_agg", "json_extract", "contains", "startswith", "endswith",
         "indexof", "tolower", "toupper", "totalseconds", "any", "all"]
col = sa.column("c", sa.String)
num = sa.column("n", sa.Float)

def observe():
    out = {}
    for nm in NAMES:
        f = getattr(sa.func, nm)
        arg = num if nm in ("ceil", "floor", "round", "max", "abs", "sqrt", "sign", "trunc",
                            "ceiling", "sum", "min", "avg") else col
        try:
            e = f() if nm in ("now", "random", "current_date", "current_timestamp", "localtime") \
                else (f(arg, 2) if nm in ("substr", "left", "right", "power", "mod") else
                      (f(arg, "x") if nm in ("strpos", "coalesce", "concat", "nullif", "ifnull",
                                             "instr", "position", "replace") else f(arg)))
        except Exception as ex:
            out[nm] = ["raises", type(ex).__name__]
            continue
        def comp(d):
            try:
                return str(e.compile(dialect=d))
            except Exception as ex:
                return "raises " + type(ex).__name__
        out[nm] = [type(e).__name__, type(e).__module__, comp(sqlite.dialect()),
                   comp(postgresql.dialect()), repr(e.type), type(e.type).__name__]
    return out

res = {}
if mode == "control":
    res["obs"] = observe()
elif mode == "before":
    first = observe()
    import odata_query.sqlalchemy
    from odata_query.sqlalchemy import apply_odata_query
    res["obs"] = first
    res["after_import"] = observe()
else:
    import odata_query.sqlalchemy
    from odata_query.sqlalchemy import functions_ext
    if mode == "after-used":
        from odata_query.sqlalchemy.shorthand import apply_odata_core
        t = sa.table("t", sa.column("s", sa.String), sa.column("f", sa.Float))
        str(apply_odata_core(sa.select(t.c.s), "tolower(s) eq 'a' and floor(f) eq 1 and indexof(s, 'a') eq 1"))
    res["obs"] = observe()
res["odata_loaded"] = any(m.startswith("odata_query") for m in sys.modules)
print(json.dumps(res))
"""


def run_import_histories(ctx):
    modes = ["control", "before", "after", "after-used"]
    seeds = list(range(ctx.pick(2, 16)))
    jobs = [(m, s) for s in seeds for m in modes]
    results = {}
    for i, (mode, seed) in enumerate(jobs):
        if not ctx.mine(i // len(modes)):
            continue
        env = dict(os.environ)
        env["PYTHONHASHSEED"] = str(seed)
        try:
            p = subprocess.run([sys.executable, "-c", CHILD, mode], env=env, capture_output=True,
                               text=True, timeout=120)
        except subprocess.TimeoutExpired:
            ctx.mark_inconclusive("import-history child timed out")
            continue
        if p.returncode != 0:
            ctx.mark_inconclusive("import-history child failed: " + p.stderr[-300:])
            continue
        results[(mode, seed)] = json.loads(p.stdout.strip().splitlines()[-1])
        ctx.count("import_history_processes")
    for (mode, seed), res in results.items():
        ref = results.get(("control", seed))
        if ref is None:
            continue
        if ref["odata_loaded"]:
            ctx.mark_inconclusive("control process loaded odata_query")
        ctx.count("evaluations")
        ctx.seen(["import", mode, seed])
        for label in ("obs", "after_import"):
            if label not in res:
                continue
            diff = {k: (ref["obs"][k], v) for k, v in res[label].items() if ref["obs"].get(k) != v}
            ctx.count("func_observations", len(res[label]))
            if diff:
                ctx.fail({"history": mode, "observed_at": label, "hashseed": seed},
                         "sqlalchemy.func.<name> differs from a process that never imported "
                         "odata_query", expected={k: v[0] for k, v in diff.items()},
                         observed={k: v[1] for k, v in diff.items()}, cls="import",
                         sig=["import", sorted(diff)])


def run(ctx):
    contracts.install_parse()
    contracts.install_visit_trace()
    django_env.setup()
    sqla_env.engine()
    rng = ctx.rng("c15")
    instances = [("canonical", R.canonical_instance())]
    for i in range(ctx.pick(1, 5)):
        instances.append(("random-%d-%d" % (ctx.shard, i), R.random_instance(rng)))
    instances.append(("dangling-%d" % ctx.shard, R.dangling_instance(rng)))
    sb, db = sqla_bases(), django_bases()
    per = ctx.pick(8, 60)
    for inst_name, inst in instances:
        if not inst.get("_dangling"):
            django_env.load_relational(inst)
        else:
            ctx.cls("instances-with-dangling-keys")
        sqla_env.load_relational(inst)
        graph = R.Graph(inst)
        if inst_name == "canonical" or inst_name.startswith("dangling"):
            k = 0
            for t in R.owner_path_lambda_grid("post"):
                for bname in ("select-id", "query", "prefiltered"):
                    if bname not in sb:
                        continue
                    k += 1
                    if ctx.mine(k):
                        ctx.count("owner_path_lambda_cells")
                        judge(ctx, graph, inst_name, "sqlalchemy", bname, sb[bname][0], sb[bname][1], t, twice=False)
                if not inst.get("_dangling"):
                    for bname in list(db)[:1]:
                        k += 1
                        if ctx.mine(k):
                            judge(ctx, graph, inst_name, "django", bname, db[bname][0], db[bname][1], t, twice=False)
        k = 0
        for bname in sb:
            if "aliased-country" in bname or "aliased-author" in bname:
                for text in ALIASED_ROUTE_FILTERS:
                    k += 1
                    if ctx.mine(k):
                        ctx.count("aliased_route_cells")
                        judge(ctx, graph, inst_name, "sqlalchemy", bname, sb[bname][0], sb[bname][1],
                              drive.parse_term(text)[1], twice=False)
        for bname, (fn, ordered) in sb.items():
            for i in range(per):
                if ctx.out_of_time():
                    break
                t = R.gen_filter(rng, "post", rng.randint(0, 2), {"lambda_owner_paths": True})
                judge(ctx, graph, inst_name, "sqlalchemy", bname, fn, ordered, t, twice=(i % 7 == 6))
        for bname, (fn, ordered) in db.items():
            if inst.get("_dangling"):
                break       # Django enforces foreign keys on SQLite: no such content there
            for i in range(per):
                if ctx.out_of_time():
                    break
                t = R.gen_filter(rng, "post", rng.randint(0, 2))
                judge(ctx, graph, inst_name, "django", bname, fn, ordered, t, twice=(i % 7 == 6))
        ctx.sample({"instance": inst_name, "bases": list(sb)[:4] + list(db)[:3]})
    run_import_histories(ctx)
    contracts.flush_counts(ctx)


def requirements(m):
    out = []
    c = m["counters"]
    if c.get("results_compared", 0) < 300:
        out.append("fewer than 300 results compared")
    if c.get("import_history_processes", 0) < 6:
        out.append("fewer than 6 import-history processes")
    if c.get("join_counts_checked", 0) < 50:
        out.append("join monitor under-evaluated")
    for b in sqla_bases():
        if not m["classes"].get("base:sqlalchemy:" + b):
            out.append("SQLAlchemy base never used: " + b)
    return out


def replay(ctx, case):
    django_env.setup()
    sqla_env.engine()
    inst = R.canonical_instance()
    django_env.load_relational(inst)
    sqla_env.load_relational(inst)
    g = R.Graph(inst)
    t = drive.parse_term(case["filter"])[1]
    bases = sqla_bases() if case["orm"] == "sqlalchemy" else django_bases()
    fn, ordered = bases[case["base"]]
    judge(ctx, g, "canonical", case["orm"], case["base"], fn, ordered, t, case.get("applied_twice", False))
