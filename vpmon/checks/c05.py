"""C05 - the parser groups operators exactly as the OData precedence table dictates.

Refuting event: decode(parse(print_min(T))) != T or decode(parse(print_full(T))) != T.
Oracle: identity with the generator's term; the reference printer is the only place the
precedence table is written down on the verification side.
"""
import itertools

from .. import drive, findings
from ..gen import terms as T, fullgen
from ..gen.printer import to_text
from ..mon import contracts
from ..ref.decode import norm_for_parse
from ..shrink import shrink

RULE = ("exhaustive: every tree with 2 and with 3 operator nodes over 14 binary + 2 unary "
        "operators (all shapes, identifier leaves, list operand for `in`), each printed "
        "minimally and fully parenthesised by the reference printer; random: full-grammar "
        "terms up to depth 7 (quick) / 10 (thorough) in min/full/random-paren renderings. "
        "distinct = distinct (term, rendering); non-trivial = term has >= 2 operator nodes")
RULE += (" " + 'Also: chains of one operator to 257 (quick) and of recursion-limit-1 .. limit+200 operands checked iteratively; every 2-operator tree around big operands (in-lists 31..100 of 4 kinds, 40-digit integers, 3000-character strings, 128-character names); namespaced named-parameter names and lambda variables.')
ASSUMPTIONS = ["reference printer + precedence table in vpmon/gen/terms.py are trusted",
               "documented deviations: singleton list '(x,)', `in` needs a list literal"]
EXHAUSTIVE = "all operator pairs and triples (both renderings)"
SHARDS = {"quick": 12, "thorough": 16}
BUDGET_S = {"quick": 50, "thorough": 600}

BINOPS = T.BIN_OPS + ("eq", "ne", "lt", "le", "gt", "ge", "in") + T.BOOL_OPS
UNOPS = T.UN_OPS


def mk(op, l, r=None):
    if op in T.BIN_OPS:
        return ("bin", op, l, r)
    if op in T.CMP_OPS:
        return ("cmp", op, l, r)
    if op in T.BOOL_OPS:
        return ("bool", op, l, r)
    return ("un", op, l)


def shapes(n):
    """All unary/binary tree shapes with n operator nodes: 'L' leaf, ('U',s), ('B',s1,s2)"""
    if n == 0:
        return ["L"]
    out = [("U", s) for s in shapes(n - 1)]
    for k in range(n):
        for l in shapes(k):
            for r in shapes(n - 1 - k):
                out.append(("B", l, r))
    return out


def assign(shape):
    """Generator of terms for one shape with symbolic leaves numbered in-order."""
    counter = [0]

    def build(s, ops):
        if s == "L":
            counter[0] += 1
            return T.ident("v%d" % counter[0])
        if s[0] == "U":
            op = next(ops)
            return mk(op, build(s[1], ops))
        op = next(ops)
        l = build(s[1], ops)
        if op == "in":
            if s[2] != "L":
                raise ValueError
            counter[0] += 2
            r = T.lst(T.ident("v%d" % (counter[0] - 1)), T.ident("v%d" % counter[0]))
        else:
            r = build(s[2], ops)
        return mk(op, l, r)

    def slots(s):
        if s == "L":
            return []
        if s[0] == "U":
            return ["U"] + slots(s[1])
        return ["B"] + slots(s[1]) + slots(s[2])

    sl = slots(shape)
    for combo in itertools.product(*[(UNOPS if k == "U" else BINOPS) for k in sl]):
        counter[0] = 0
        try:
            yield build(shape, iter(combo))
        except ValueError:
            continue


def n_ops(t):
    return sum(1 for n in T.walk(t) if n[0] in ("bin", "cmp", "bool", "un"))


def judge(ctx, t, mode, text, cls):
    ctx.count("evaluations")
    want = norm_for_parse(t)
    out = drive.parse_term(text)
    if n_ops(t) >= 2:
        ctx.seen([text])
    if out[0] == "ok" and out[1] == want:
        return True
    sig = (out[0], out[1] if out[0] != "ok" else "different-tree")

    def still(t2):
        o2 = drive.parse_term(to_text(t2, "full" if mode == "full" else "min"))
        if o2[0] == "ok" and o2[1] == norm_for_parse(t2):
            return False
        return (o2[0], o2[1] if o2[0] != "ok" else "different-tree") == sig
    small = shrink(t, still)
    if small is not t and still(small):
        t, text = small, to_text(small, "full" if mode == "full" else "min")
        want, out = norm_for_parse(t), drive.parse_term(text)
    keys = findings.parse_triggers(t, text)
    ctx.fail({"term": t, "mode": mode, "text": text}, "parse(%s-paren text) != term" % mode,
             expected=want, observed=out, keys=keys, cls=cls, sig=sig)
    return False


def run(ctx):
    contracts.install_parse()
    # ---- exhaustive part ------------------------------------------------------------
    idx = 0
    for n in (2, 3):
        for shape in shapes(n):
            for t in assign(shape):
                idx += 1
                if not ctx.mine(idx):
                    continue
                for mode in ("min", "full"):
                    text = to_text(t, mode)
                    judge(ctx, t, mode, text, "exh%d" % n)
                ctx.cls("exhaustive_n%d" % n)
                ops = [x[1] for x in T.walk(t) if x[0] in ("bin", "cmp", "bool", "un")]
                for a, b in zip(ops, ops[1:]):
                    ctx.cls("pair:%s>%s" % (a, b))
                if idx % 4001 == 0:
                    ctx.sample({"term": t, "min": to_text(t, "min"), "full": to_text(t, "full")})
    ctx.count("exhaustive_complete")
    # ---- long chains of one operator (left associativity must hold at any length) -------
    lengths = ctx.pick([5, 60, 100, 101, 128, 257], [5, 33, 64, 100, 101, 102, 128, 200, 257, 300])
    j = 0
    for op in BINOPS:
        if op == "in":
            continue
        for n_operands in lengths:
            j += 1
            if not ctx.mine(j):
                continue
            for right in (False, True):
                leaves = [T.ident("w%d" % i) for i in range(n_operands)]
                if right:
                    t = leaves[-1]
                    for leaf in reversed(leaves[:-1]):
                        t = mk(op, leaf, t)
                else:
                    t = leaves[0]
                    for leaf in leaves[1:]:
                        t = mk(op, t, leaf)
                for mode in ("min", "full"):
                    ctx.count("evaluations")
                    text = to_text(t, mode)
                    out = drive.parse_term(text)
                    ctx.seen([op, n_operands, right, mode])
                    if not (out[0] == "ok" and out[1] == t):
                        ctx.fail({"operator": op, "operands": n_operands, "right_nested": right,
                                  "mode": mode, "text_head": text[:120]},
                                 "long %s chain of one operator is regrouped" % ("right-nested" if right else "left-deep"),
                                 expected="the %s tree" % ("right-nested" if right else "left-deep"),
                                 observed=out[0] if out[0] != "ok" else "a different tree",
                                 cls="chain", sig=["chain", op, right])
            ctx.cls("chain:%s:%d" % (op, n_operands))
    # ---- very long chains (>= the interpreter's recursion limit), checked iteratively --------
    # nothing here recurses, and the recursion limit is left alone: a tree this deep must
    # still be the left-deep one (min rendering) / the one the parentheses spell (full)
    import sys
    from odata_query import ast as A
    limit = sys.getrecursionlimit()
    for op in ("and", "or", "add", "mul", "eq"):
        for n_operands in ctx.pick([limit - 1, limit, limit + 200], [limit - 1, limit, limit + 1, limit + 200, 3 * limit]):
            j += 1
            if not ctx.mine(j):
                continue
            names = ["w%d" % i for i in range(n_operands)]
            for mode in ("min", "full"):
                if mode == "min":
                    text = (" %s " % op).join(names)
                else:
                    text = "(" * (n_operands - 1) + names[0] + "".join(" %s %s)" % (op, nm) for nm in names[1:])
                ctx.count("evaluations")
                ctx.seen(["very-long", op, n_operands, mode])
                o = drive.parse_ast(text)
                bad = None
                if o[0] != "ok":
                    bad = "rejected: %s" % (o[1],)
                else:
                    node, k = o[1], n_operands - 1
                    while k > 0 and bad is None:
                        cls_ok = isinstance(node, (A.BoolOp, A.BinOp, A.Compare))
                        if not cls_ok:
                            bad = "spine ends after %d of %d operators" % (n_operands - 1 - k, n_operands - 1)
                            break
                        right = node.right
                        if not (isinstance(right, A.Identifier) and right.name == names[k]):
                            bad = "operand %d is not the right operand of the %d-th operator from the top" % (k, n_operands - k)
                            break
                        node, k = node.left, k - 1
                    if bad is None and not (isinstance(node, A.Identifier) and node.name == names[0]):
                        bad = "left-most operand is not w0"
                if bad:
                    ctx.fail({"operator": op, "operands": n_operands, "mode": mode,
                              "recursion_limit": limit, "text_head": text[:100]},
                             "very long chain of one operator is not grouped to the left",
                             expected="the left-deep tree", observed=bad, cls="very-long-chain",
                             sig=["very-long", op, mode])
            ctx.cls("very-long-chain:%s" % op)
    # ---- operator pairs around BIG operands -------------------------------------------
    # every 2-operator tree that contains `in`, its list replaced by long homogeneous
    # literal lists; and every 2-operator tree with one leaf replaced by a long literal.
    # Grouping must not depend on the size or spelling class of an operand.
    def big_list(kind, n):
        if kind == "int":
            return T.lst(*[T.I(i) for i in range(n)])
        if kind == "signed":
            return T.lst(*[T.lit("int", ("-%d" if i % 2 else "+%d") % i) for i in range(n)])
        if kind == "str":
            return T.lst(*[T.S("k%d" % i) for i in range(n)])
        return T.lst(*[T.lit("float", "%d.5" % i) for i in range(n)])
    big_leaves = [T.lit("int", "1" * 40), T.S("x" * 3000), T.ident("n" * 128),
                  T.lit("float", "0." + "3" * 60)]
    list_lengths = ctx.pick([31, 32, 33, 100], [31, 32, 33, 64, 100, 255, 256, 1000, 1024, 4097])
    j = 0
    for shape in shapes(2):
        for t in assign(shape):
            has_in = any(x[0] == "cmp" and x[1] == "in" for x in T.walk(t))
            variants = []
            if has_in:
                for kind in ("int", "signed", "str", "float"):
                    for n_items in list_lengths:
                        lst = big_list(kind, n_items)
                        variants.append(("list:%s:%d" % (kind, n_items),
                                         T.map_term(lambda x: lst if x[0] == "list" else x, t)))
            for bi, leaf in enumerate(big_leaves):
                for target in ("v1", "v2"):
                    variants.append(("leaf:%d" % bi, T.map_term(
                        lambda x: leaf if x == T.ident(target) else x, t)))
            for vname, tv in variants:
                j += 1
                if not ctx.mine(j):
                    continue
                for mode in ("min", "full"):
                    ctx.count("evaluations")
                    text = to_text(tv, mode)
                    out = drive.parse_term(text)
                    ctx.seen(["big", vname, j, mode])
                    if not (out[0] == "ok" and out[1] == norm_for_parse(tv)):
                        small = to_text(t, mode)
                        ctx.fail({"variant": vname, "mode": mode, "small_text": small,
                                  "text_head": text[:160], "term_small": t},
                                 "grouping changes when an operand is large",
                                 expected="the tree of %r with the operand substituted" % small,
                                 observed=out[0] if out[0] != "ok" else "a different tree",
                                 cls="big-operand", sig=["big", vname.split(":")[0], mode])
                ctx.cls("big:" + vname.split(":")[0])
    # ---- idioms: every built-in call compared / combined with the constants idioms are made of --
    # (indexof(..) ge 0, length(..) eq 0, contains(..) eq true, ... ): the parser builds the
    # tree that is written, it does not recognise idioms
    consts = [T.I(0), T.I(-1), T.I(1), T.lit("float", "0.0"), T.S(""), T.S("x"), T.lit("bool", "true"),
              T.lit("bool", "false"), T.lit("null", "null"), T.lit("int", "-0"), T.lit("int", "00")]
    for fname in sorted(fullgen.BUILTINS):
        lo, hi = fullgen.BUILTINS[fname]
        for nargs in sorted({lo, hi}):
            callt = ("call", fname, tuple(T.ident("q%d" % i) if i != 1 else T.S("abc") for i in range(nargs)))
            for op in ("eq", "ne", "lt", "le", "gt", "ge", "add", "sub", "and", "or"):
                for c in consts:
                    j += 1
                    if not ctx.mine(j):
                        continue
                    for t in (mk(op, callt, c), mk(op, c, callt), ("un", "not", mk(op, callt, c))):
                        for mode in ("min", "full"):
                            text = to_text(t, mode)
                            judge(ctx, t, mode, text, "idiom")
        ctx.cls("idiom:" + fname)
    # ---- operand KINDS: every pair of arithmetic / comparison operators, both nestings, with every
    # pattern of 9 operand kinds (null among them) at the three leaves: grouping must not depend on what the operands are
    kinds = [T.ident("v"), T.I(7), T.lit("float", "1.5"), T.lit("duration", "P1DT2H"), T.S("s"),
             T.lit("datetime", "2020-01-01T00:00:00Z"), T.call("now"), T.lit("duration", "-PT12H"), T.lit("null", "null")]
    ar = ("add", "sub", "mul", "div", "mod", "eq", "lt", "ge")
    for o1 in ar:
        for o2 in ar:
            for k1 in range(len(kinds)):
                for k2 in range(len(kinds)):
                    for k3 in range(len(kinds)):
                        j += 1
                        if not ctx.mine(j):
                            continue
                        x, y, z = kinds[k1], kinds[k2], kinds[k3]
                        for t in (mk(o1, mk(o2, x, y), z), mk(o1, x, mk(o2, y, z))):
                            for mode in ("min", "full"):
                                judge(ctx, t, mode, to_text(t, mode), "operand-kinds")
    ctx.cls("operand-kinds")
    # ---- random part ----------------------------------------------------------------
    rng = ctx.rng("rand")
    o = fullgen.Opts()
    maxd = ctx.pick(7, 10)
    n = 0
    while not ctx.out_of_time():
        n += 1
        if n > ctx.pick(1500, 60000):
            break
        d = rng.randint(2, maxd)
        t = fullgen.gen_expr(rng, o, d)
        if T.size(t) > 400:
            continue
        for mode in ("min", "full", "rand"):
            text = to_text(t, mode, rng=rng)
            judge(ctx, t, mode, text, "rand")
        ctx.cls("random_terms")
        ctx.note_max("max_term_size", T.size(t))
        if n % 500 == 1:
            ctx.sample({"term_text_min": to_text(t, "min")[:300]})
    contracts.flush_counts(ctx)


def requirements(m):
    out = []
    if m["counters"].get("M-parse", 0) == 0 and m["counters"].get("evaluations", 0) == 0:
        out.append("parse monitor never evaluated")
    pairs = [k for k in m["classes"] if k.startswith("pair:")]
    if len(pairs) < 200:
        out.append("operator-pair matrix has only %d cells" % len(pairs))
    return out


def replay(ctx, case):
    def tup(x):
        return tuple(tup(i) for i in x) if isinstance(x, list) else x
    t = tup(case["term"])
    judge(ctx, t, case["mode"], case["text"], "replay")
