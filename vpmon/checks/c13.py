"""C13 - AST -> OData text -> AST is the identity (and rendering is a fixpoint).

Refuting events for t = parse(text): render(t) raises; parse(render(t)) fails or != t
(library dataclass equality AND decoded-term equality, so a broken __eq__ cannot hide
it); render(parse(render(t))) != render(t).
"""
import itertools

from odata_query.roundtrip import AstToODataVisitor

from .. import drive, findings
from ..gen import terms as T, fullgen
from ..gen.printer import to_text
from ..mon import contracts
from ..ref.decode import decode
from ..shrink import shrink
from .c05 import shapes, assign, BINOPS, UNOPS

RULE = ("ASTs in the image of the parser: parse of min-/full-/random-parenthesised texts of "
        "(a) every tree with 2 operator nodes and every tree with 3 operator nodes "
        "(exhaustive, identifier/list leaves), (b) random full-grammar terms to depth 7 / 10 "
        "with all literal kinds, hostile strings, namespaces, paths, lambdas, named "
        "parameters. distinct = distinct source text; non-trivial = AST has >= 3 nodes")
RULE += (" " + 'Also: unary minus (7 contexts) before every literal spelling class; namespaced named-parameter names and lambda variables.')
RULE += (" " + 'Raw-spelling lane also has every word operator as the LAST segment of an operand path in 10 positions.')
ASSUMPTIONS = ["the parser defines which ASTs are in scope (only its image is judged)"]
EXHAUSTIVE = "all operator pairs and triples (parsed from both renderings)"
SHARDS = {"quick": 12, "thorough": 16}
BUDGET_S = {"quick": 80, "thorough": 600}


def render(node):
    return AstToODataVisitor().visit(node)


def trip(text):
    """-> (problem or None, detail)"""
    o1 = drive.parse_ast(text)
    if o1[0] != "ok":
        return ("source-rejected", o1[:2])
    t1 = o1[1]
    try:
        r1 = render(t1)
    except contracts.MonitorViolation as e:
        return ("monitor", str(e)[:300])
    except Exception as e:
        return ("render-raises", (type(e).__name__, str(e)[:200]))
    if not isinstance(r1, str):
        return ("render-not-str", repr(r1)[:200])
    o2 = drive.parse_ast(r1)
    if o2[0] != "ok":
        return ("rendered-text-rejected", (r1, o2[1], str(o2[2])[:200]))
    t2 = o2[1]
    d1, d2 = decode(t1), decode(t2)
    if d1 != d2 or not (t1 == t2):
        return ("round-trip-differs", {"rendered": r1, "before": d1, "after": d2,
                                       "lib_eq": bool(t1 == t2)})
    try:
        r2 = render(t2)
    except Exception as e:
        return ("render-raises", (type(e).__name__, str(e)[:200]))
    if r2 != r1:
        return ("not-a-fixpoint", (r1, r2))
    return (None, r1)


def judge(ctx, t, mode, text, cls):
    ctx.count("evaluations")
    if T.size(t) >= 3:
        ctx.seen(text)
    prob, detail = trip(text)
    if prob is None:
        return True
    if prob == "source-rejected":
        # not in the image of the parser: outside C13's quantifier (C05/C06/C10 judge it)
        ctx.count("source_rejected")
        return True

    def still(t2):
        p2, _ = trip(to_text(t2, "full" if mode == "full" else "min"))
        return p2 == prob
    small = shrink(t, still)
    if small is not t and still(small):
        t = small
        text = to_text(small, "full" if mode == "full" else "min")
        prob, detail = trip(text)
    keys = findings.roundtrip_triggers(t)
    ctx.fail({"term": t, "mode": mode, "text": text}, prob, expected="parse(render(t)) == t",
             observed=detail, keys=keys, cls=cls, sig=[prob, sorted(keys)])
    return False


def run(ctx):
    contracts.install_parse()
    contracts.install_visit_trace()
    idx = 0
    for n in (2, 3):
        for shape in shapes(n):
            for t in assign(shape):
                idx += 1
                if not ctx.mine(idx):
                    continue
                for mode in ("min", "full"):
                    judge(ctx, t, mode, to_text(t, mode), "exh%d" % n)
                ctx.cls("exhaustive_n%d" % n)
    ctx.count("exhaustive_complete")
    # unary operators in front of every literal spelling class, including spellings outside
    # the ABNF that a lexer built on \d might accept (if the parser produces the tree, the
    # trip must preserve it; if it rejects the text, there is nothing to judge)
    spell = [T.lit("int", x) for x in ("5", "+5", "-5", "007", "\uff15", "\u0663", "1\uff12")] + \
            [T.lit("float", x) for x in ("1.5", "+1.5", ".5e1", "1e3", "\uff11.5", "1.\uff15")] + \
            [T.lit("date", "2020-01-01"), T.lit("duration", "P1D"), T.lit("duration", "-P1D"),
             T.lit("time", "10:00:00"), T.lit("guid", "6c0e37e3-e856-45ee-bd58-484b11882c67"),
             T.S("-1"), T.lit("null", "null"), T.lit("bool", "true"), T.ident("e1"), T.ident("x", ("ns",))]
    j = 0
    for lit in spell:
        for wrap in (lambda x: ("un", "neg", x), lambda x: ("un", "neg", ("un", "neg", x)),
                     lambda x: ("un", "not", ("un", "neg", x)),
                     lambda x: ("bin", "sub", T.ident("a"), ("un", "neg", x)),
                     lambda x: ("cmp", "eq", T.ident("qty"), ("un", "neg", x)),
                     lambda x: T.lst(("un", "neg", x), x),
                     lambda x: T.call("my.f", ("un", "neg", x))):
            j += 1
            if not ctx.mine(j):
                continue
            t = wrap(lit)
            ctx.cls("unary-before-literal")
            for mode in ("min", "full"):
                judge(ctx, t, mode, to_text(t, mode), "unary-literal")
    # trees only SOME spellings produce: fields named exactly like an operator keyword (they
    # lex as identifiers wherever the keyword's own whitespace is missing) and path segments
    # written with a namespace (which the parser drops).  Source text -> tree -> trip.
    kws = ["not", "eq", "ne", "lt", "le", "gt", "ge", "and", "or", "add", "sub", "mul", "div", "mod", "in",
           # spellings a case-insensitive regular expression relates to a keyword (long s, dotless / dotted i)
           "\u017fub", "\u0131n", "d\u0131v", "\u0130N", "\u017fUB", "D\u0130V"]
    raw = []
    for kw in kws:
        raw += ["(%s) eq x" % kw, "x eq (%s)" % kw, "x eq (%s) and y" % kw, "-%s add 1" % kw, "not (%s)" % kw,
                "(%s) in (1, 2)" % kw, "f.g(%s, 1) eq (%s)" % (kw, kw), "(%s) add (%s) gt 1" % (kw, kw),
                "%s/a eq 1" % kw, "a/%s eq 1" % kw, "xs/any(y: (%s) eq y)" % kw, "my.f(%s=1)" % kw,
                "x in ((%s), 1)" % kw, "(%s)" % kw, "ns.%s eq 1" % kw,
                # ... and as the LAST segment of a path that is an operand
                "(a/%s) eq 1" % kw, "(a/b/%s) eq x" % kw, "x eq (a/%s) and y" % kw, "(a/%s) and b" % kw,
                "-(a/%s) add 1 gt 0" % kw, "(a/%s) in (1, 2)" % kw, "xs/any(y: (y/%s) gt 2)" % kw,
                "(a/%s) add (b/%s) eq 2" % (kw, kw), "not (a/%s)" % kw, "(A/%s) eq 1" % kw.upper()]
    for seg in ("x.1c", "x.any", "x.all", "ns.b", "x.2", "x.not", "x._"):
        raw += ["a/%s eq 1" % seg, "a/%s/c eq 1" % seg, "a/b/%s eq 1" % seg, "a/%s/any()" % seg,
                "a/%s/any(y: y eq 1)" % seg, "xs/any(y: y/%s eq 1)" % seg]
    for j, text in enumerate(raw):
        if not ctx.mine(j):
            continue
        ctx.count("evaluations")
        ctx.cls("raw-spelling")
        prob, detail = trip(text)
        if prob == "source-rejected":
            ctx.count("source_rejected")
            continue
        ctx.seen(["raw", text])
        if prob is not None:
            keys = []
            o1 = drive.parse_term(text)
            import re as _re
            # (segments named any / all are writable since fix 37 and no longer part of the finding)
            if o1[0] == "ok" and any(n[0] == "attr" and not _re.fullmatch(r"[A-Za-z_]\w*", n[2]) for n in T.walk(o1[1])):
                keys.append("path-segment-only-writable-with-its-namespace")
            ctx.fail({"source": text, "mode": "raw"}, prob, expected="parse(render(t)) == t",
                     observed=detail, keys=keys, cls="raw-spelling", sig=[prob, sorted(keys), text.split("/")[0][:6] if keys else text])
    # every code point an identifier may contain, inside field names / namespaces / lambda variables
    import re as _re
    wordy = [c for c in range(0x80, 0x110000) if _re.fullmatch(r"\w", chr(c))]
    batch = ctx.pick(400, 100)
    j = 0
    for fr in ("a%sb", "xs/any(v%s: v%s/k eq 1), q%s", "n%s.f, a/b%s"):
        for k in range(0, len(wordy), batch):
            j += 1
            if not ctx.mine(j):
                continue
            chars = [chr(c) for c in wordy[k:k + batch]]

            def text_of(chs, fr=fr):
                # flat: all identifiers are arguments of ONE custom call (no deep nesting)
                return "my.f(" + ", ".join(fr.replace("%s", ch) for ch in chs) + ")"
            ctx.count("evaluations")
            ctx.count("identifier_codepoints_swept", len(chars))
            ctx.cls("identifier-codepoint-sweep")
            prob, detail = trip(text_of(chars))
            if prob is None or prob == "source-rejected" and len(chars) == 1:
                continue
            while len(chars) > 1:
                h = len(chars) // 2
                pa = trip(text_of(chars[:h]))[0]
                if pa is not None:
                    chars = chars[:h]
                    continue
                pb = trip(text_of(chars[h:]))[0]
                if pb is not None:
                    chars = chars[h:]
                    continue
                break
            prob, detail = trip(text_of(chars))
            if prob in (None, "source-rejected"):
                ctx.count("source_rejected")
                continue
            ctx.fail({"source": text_of(chars), "mode": "raw", "codepoints": ["U+%04X" % ord(c) for c in chars[:4]]}, prob,
                     expected="parse(render(t)) == t", observed=repr(detail)[:300], cls="identifier-codepoint-sweep",
                     sig=["id-sweep", prob, fr[:6]])
    # every code point inside the quoted literal kinds whose content is free text
    block = ctx.pick(4096, 512)
    j = 0
    for start in range(0, 0x110000, block):
        body = "".join(chr(c) for c in range(start, min(start + block, 0x110000)) if c != 0x27)
        for fr in ("s eq '%s'", "geo.length(geography'%s') gt 1", "f.g('%s', x) and y in ('k', '%s')",
                   "s eq '" + "''" + "%s" + "''" + "' and u eq 'it''s%s'"):
            j += 1
            if not ctx.mine(j):
                continue
            ctx.count("evaluations")
            ctx.count("sweep_codepoints", len(body))
            ctx.cls("codepoint-in-literal")
            prob, detail = trip(fr.replace("%s", body))
            if prob is None:
                continue
            pl = body
            while len(pl) > 1:
                h = len(pl) // 2
                if trip(fr.replace("%s", pl[:h]))[0] is not None:
                    pl = pl[:h]
                elif trip(fr.replace("%s", pl[h:]))[0] is not None:
                    pl = pl[h:]
                else:
                    break
            text = fr.replace("%s", pl)
            prob, detail = trip(text)
            ctx.fail({"source": text, "mode": "raw", "codepoints": ["U+%04X" % ord(c) for c in pl[:8]]},
                     prob or "round-trip-differs", expected="parse(render(t)) == t", observed=repr(detail)[:300],
                     cls="codepoint-in-literal", sig=["sweep", prob, fr[:8]])
    rng = ctx.rng("rand")
    o = fullgen.Opts()
    maxd = ctx.pick(7, 10)
    for i in range(ctx.pick(2500, 60000)):
        # (the first 200 trees run even when the sweeps above used up the budget on a loaded machine:
        # the node-kind requirements must not depend on the machine's load)
        if ctx.out_of_time() and i >= 200:
            break
        t = fullgen.gen_expr(rng, o, rng.randint(1, maxd))
        if T.size(t) > 300:
            continue
        for k in T.kinds(t):
            ctx.cls("kind:" + k)
        for mode in ("min", "full", "rand"):
            text = to_text(t, mode, rng=rng)
            judge(ctx, t, mode, text, "rand")
        if i % 600 == 0:
            ctx.sample({"source": to_text(t)[:200], "rendered": trip(to_text(t))[1]})
    contracts.flush_counts(ctx)


def requirements(m):
    out = []
    if not m["counters"].get("M-immut"):
        out.append("visit monitor never evaluated")
    need = ["kind:lit:" + k for k in ("int", "float", "bool", "null", "str", "guid", "date",
                                      "time", "datetime", "duration")]
    need += ["kind:lam:any", "kind:lam:all", "kind:list", "kind:attr", "kind:neg", "kind:not",
             "kind:in"]
    for k in need:
        if not m["classes"].get(k):
            out.append("node kind never generated: " + k)
    return out


def replay(ctx, case):
    def tup(x):
        return tuple(tup(i) for i in x) if isinstance(x, list) else x
    print(trip(case["text"]))
    prob, detail = trip(case["text"])
    if prob and prob != "source-rejected":
        ctx.fail(case, prob, observed=detail)
