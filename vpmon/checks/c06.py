"""C06 - every literal and identifier is recognised as its own kind with its exact value.

Refuting events: a well-formed literal spelling is rejected, lexed as another kind or
split; .val / .py_val differ from the value computed independently from the spelling;
a well-formed identifier is not one Identifier with the right name / namespace.
"""
import dataclasses
import datetime as dt
import re
from fractions import Fraction

from odata_query import ast

from .. import drive
from ..gen import literals as L, terms as T
from ..gen.printer import to_text
from ..mon import contracts
from ..ref.decode import decode

RULE = ("literal spellings generated from the OData ABNF per kind (11 kinds; boundary values "
        "of every date/time field, all sign/optional-part combinations of durations, "
        "hostile string contents, both hex cases of GUIDs, 19+ digit integers, every "
        "fraction/exponent combination) and identifiers (letters/digits/underscores, up to "
        "128 word characters, 0..3 namespaces, keyword-containing names), each embedded in "
        "11 expression contexts; the value is computed by the generator. distinct = distinct "
        "(spelling, context); non-trivial = every case (spelling has a kind-specific value)")
RULE += (" " + 'Also: every built-in function name in 6 letter cases as an identifier; strings whose content spells another literal kind / keyword / operator.')
RULE += (" " + 'Reserved-first-segment lane: 13 reserved words x 5 letter cases as first / later namespace part and (any, all) as plain names, every context.')
ASSUMPTIONS = ["durations: 365.25-day years, 30.44-day months (documented), compared with "
               "1 us + 1e-15 relative tolerance because the library goes through float",
               "fractions of a second beyond microseconds are truncated (Python datetime)",
               "years 0001..9999 (what Python's date can hold)"]
SHARDS = {"quick": 12, "thorough": 16}
BUDGET_S = {"quick": 50, "thorough": 600}

PROBE = T.ident("PROBE__")
F1, F2 = T.ident("fld"), T.ident("other")
CONTEXTS = {
    "alone": PROBE,
    "eq-left": ("cmp", "eq", PROBE, F1),
    "eq-right": ("cmp", "eq", F1, PROBE),
    "not": ("un", "not", PROBE),
    "arith-right": ("bin", "add", F1, PROBE),
    "arith-left": ("cmp", "gt", ("bin", "mul", PROBE, F1), F2),
    "list": ("cmp", "in", F1, T.lst(PROBE, F2)),
    "list-single": ("cmp", "in", F1, T.lst(PROBE)),
    "call-arg": T.call("my.f", F1, PROBE),
    "named": ("call", "my.f", (("np", T.ident("k"), PROBE),)),
    "and-paren": ("bool", "and", ("cmp", "ne", PROBE, F1), ("bool", "or", F2, PROBE)),
}
ID_CONTEXTS = dict(CONTEXTS)
ID_CONTEXTS["lambda-body"] = ("lam", T.ident("coll"), "any", "v",
                              ("cmp", "eq", T.path("v", "k"), PROBE))

CLS = {"int": "Integer", "float": "Float", "bool": "Boolean", "null": "Null", "str": "String",
       "guid": "GUID", "date": "Date", "time": "Time", "datetime": "DateTime",
       "duration": "Duration", "geo": "Geography"}
_KWP = re.compile(r"^(true|false|null|any|all)\w", re.I)


def subst(t, new):
    return T.map_term(lambda x: new if x == PROBE else x, t)


def find_literals(node, out):
    if isinstance(node, ast._Literal) and not isinstance(node, ast.List):
        out.append(node)
        return
    if dataclasses.is_dataclass(node):
        for f in dataclasses.fields(node):
            v = getattr(node, f.name)
            if isinstance(v, list):
                for i in v:
                    find_literals(i, out)
            elif dataclasses.is_dataclass(v):
                find_literals(v, out)


def check_value(kind, exp, node):
    """-> list of problems comparing the real node with the generator's meaning."""
    probs = []
    if type(node).__name__ != CLS[kind]:
        return ["kind %s lexed as %s" % (kind, type(node).__name__)]
    if exp.get("val") is not None and getattr(node, "val", None) != exp["val"]:
        probs.append(".val %r != %r" % (getattr(node, "val", None), exp["val"]))
    if kind == "geo":
        return probs
    try:
        pv = node.py_val
    except Exception as e:
        return probs + ["py_val raises %s: %s" % (type(e).__name__, str(e)[:100])]
    if kind == "duration":
        want = exp["py_seconds"]
        if not isinstance(pv, dt.timedelta):
            return probs + ["py_val is not a timedelta"]
        got = Fraction(pv.days) * 86400 + Fraction(pv.seconds) + Fraction(pv.microseconds, 10 ** 6)
        tol = Fraction(1, 10 ** 6) + abs(want) / 10 ** 15
        if abs(got - want) > tol:
            probs.append("duration py_val %s s != %s s" % (float(got), float(want)))
        return probs
    want = exp["py"]
    if kind == "float":
        if not (isinstance(pv, float) and (pv == want)):
            probs.append("py_val %r != %r" % (pv, want))
        return probs
    if kind == "datetime":
        if not isinstance(pv, dt.datetime):
            return probs + ["py_val is not a datetime"]
        if (pv.tzinfo is None) != (want.tzinfo is None):
            probs.append("py_val awareness differs: %r vs %r" % (pv, want))
        elif pv != want or pv.utcoffset() != want.utcoffset() or \
                pv.replace(tzinfo=None) != want.replace(tzinfo=None):
            probs.append("py_val %r != %r" % (pv, want))
        return probs
    if type(pv) is not type(want) or pv != want:
        probs.append("py_val %r != %r" % (pv, want))
    return probs


def keys_for(kind, spelling, exp):
    keys = []
    if kind in ("date", "datetime") and spelling[:1] == "0":
        keys.append("date-year-below-1000")
    return keys


def judge_literal(ctx, kind, spelling, exp, cname, cterm):
    ctx.count("evaluations")
    ctx.cls("lit:%s" % kind)
    ctx.cls("ctx:%s" % cname)
    text = to_text(cterm).replace("PROBE__", spelling)
    ctx.seen(text)
    expval = exp["val"] if exp.get("val") is not None else "null"
    want = subst(cterm, ("lit", kind, expval))
    out = drive.parse_ast(text)
    probs = []
    if out[0] != "ok":
        probs.append("rejected: %s %s" % (out[1], str(out[2])[:120]))
    else:
        got = decode(out[1])
        if got != want:
            probs.append("tree differs (literal split / other kind / other value)")
        lits = []
        find_literals(out[1], lits)
        n_exp = sum(1 for n in T.walk(cterm) if n == PROBE)
        mine = [n for n in lits if type(n).__name__ == CLS[kind]]
        if len(lits) != n_exp:
            probs.append("%d literal nodes, expected %d" % (len(lits), n_exp))
        for n in mine[:1] or lits[:1]:
            probs.extend(check_value(kind, exp, n))
    if probs:
        ctx.fail({"kind": kind, "spelling": spelling, "context": cname, "text": text},
                 probs[0], expected={"kind": kind, "val": exp.get("val"),
                                     "py": repr(exp.get("py", exp.get("py_seconds")))},
                 observed=probs, keys=keys_for(kind, spelling, exp), cls=kind,
                 sig=[kind, probs[0].split(":")[0][:14]])


def judge_ident(ctx, spelling, name, ns, cname, cterm):
    ctx.count("evaluations")
    ctx.cls("ident")
    ctx.cls("ctx:%s" % cname)
    text = to_text(cterm).replace("PROBE__", spelling)
    ctx.seen(text)
    want = subst(cterm, ("id", name, ns))
    out = drive.parse_term(text)
    if out[0] == "ok" and out[1] == want:
        return
    keys = []
    if any(_KWP.match(p) for p in spelling.split(".")):
        keys.append("kw-prefix-identifier")
    ctx.fail({"identifier": spelling, "context": cname, "text": text},
             "identifier is not a single field reference", expected=want, observed=out,
             keys=keys, cls="ident", sig=["ident", out[0], bool(keys)])


def identifier_codepoint_sweep(ctx, batch):
    """Every code point an identifier may contain (whatever `\\w` accepts, ~140000), in the
    middle, at the end and in a namespace part of an identifier, `batch` identifiers per parse as
    arguments of one custom call: each comes back as ONE field reference with its spelling
    unchanged.  A failing batch is bisected."""
    import re as _re
    wordy = [c for c in range(0x80, 0x110000) if _re.fullmatch(r"\w", chr(c))]
    shapes = [lambda ch: "a%sb" % ch, lambda ch: "q%s" % ch, lambda ch: "n%s.f" % ch]

    def problem(names):
        text = "my.f(" + ", ".join(names) + ")"
        out = drive.parse_term(text)
        if out[0] != "ok":
            return "rejected: %s" % (out[1],)
        want = ("call", "my.f", tuple(("id", n.split(".")[-1], tuple(n.split(".")[:-1])) for n in names))
        return None if out[1] == want else "different tree"
    j = 0
    for si, shape in enumerate(shapes):
        for k in range(0, len(wordy), batch):
            j += 1
            if not ctx.mine(j):
                continue
            names = [shape(chr(c)) for c in wordy[k:k + batch]]
            ctx.count("evaluations")
            ctx.count("identifier_codepoints_swept", len(names))
            ctx.cls("identifier-codepoint-sweep")
            why = problem(names)
            if why is None:
                continue
            while len(names) > 1:
                h = len(names) // 2
                if problem(names[:h]):
                    names = names[:h]
                elif problem(names[h:]):
                    names = names[h:]
                else:
                    break
            ctx.fail({"identifier": names[0], "context": "custom-call-argument", "text": "my.f(%s)" % names[0],
                      "codepoints": ["U+%04X" % ord(c) for c in names[0] if ord(c) > 127]},
                     "identifier is not a single field reference with its spelling", observed=problem(names[:1]) or why,
                     cls="ident", sig=["ident-sweep", si])


def run(ctx):
    contracts.install_parse()
    rng = ctx.rng("lits")
    per_kind = ctx.pick(160, 2500)
    cnames = sorted(CONTEXTS)
    for kind in L.KINDS:
        for i in range(per_kind):
            if ctx.out_of_time():
                break
            spelling, k, exp = L.GEN[kind](rng)
            # every spelling alone + in 3 rotating contexts (all contexts over the run)
            chosen = ["alone"] + [cnames[(i * 3 + j) % len(cnames)] for j in range(3)]
            for cname in dict.fromkeys(chosen):
                judge_literal(ctx, kind, spelling, exp, cname, CONTEXTS[cname])
            if i == 1:
                ctx.sample({"kind": kind, "spelling": spelling, "val": exp.get("val"),
                            "py": repr(exp.get("py", exp.get("py_seconds")))})
    # deterministic boundary sweep for date/time fields (every value of every field)
    if ctx.shard == 0:
        for y in (1, 999, 1000, 1999, 2000, 9999):
            for m in range(1, 13):
                import calendar
                for d in (1, calendar.monthrange(y, m)[1]):
                    s = "%04d-%02d-%02d" % (y, m, d)
                    judge_literal(ctx, "date", s, {"val": s, "py": dt.date(y, m, d)}, "eq-right",
                                  CONTEXTS["eq-right"])
        for h in range(24):
            for mi in (0, 59):
                s = "%02d:%02d:00" % (h, mi)
                judge_literal(ctx, "time", s, {"val": s, "py": dt.time(h, mi)}, "eq-right",
                              CONTEXTS["eq-right"])
        for mi in range(60):
            s = "12:%02d:%02d" % (mi, 59 - mi)
            judge_literal(ctx, "time", s, {"val": s, "py": dt.time(12, mi, 59 - mi)}, "alone",
                          CONTEXTS["alone"])
        for oh in range(24):
            for sg in "+-":
                s = "2020-06-15T12:00:00%s%02d:59" % (sg, oh)
                d_ = dt.timedelta(hours=oh, minutes=59)
                tz = dt.timezone(d_ if sg == "+" else -d_)
                judge_literal(ctx, "datetime", s,
                              {"val": s, "py": dt.datetime(2020, 6, 15, 12, tzinfo=tz)},
                              "eq-right", CONTEXTS["eq-right"])
        ctx.cls("boundary_sweep_done")
    rng = ctx.rng("idents")
    inames = sorted(ID_CONTEXTS)
    for i in range(ctx.pick(700, 12000)):
        if ctx.out_of_time():
            break
        spelling, name, ns = L.gen_ident(rng)
        chosen = ["alone"] + [inames[(i * 3 + j) % len(inames)] for j in range(3)]
        for cname in dict.fromkeys(chosen):
            judge_ident(ctx, spelling, name, ns, cname, ID_CONTEXTS[cname])
        if i == 3:
            ctx.sample({"identifier": spelling, "name": name, "namespace": ns})
    identifier_codepoint_sweep(ctx, ctx.pick(400, 100))
    # the keyword-containing identifiers named in the property, in every context
    if ctx.shard == 0:
        for nm in L.KW_IDENTS:
            for cname in inames:
                judge_ident(ctx, nm, nm, (), cname, ID_CONTEXTS[cname])
                judge_ident(ctx, "ns." + nm, nm, ("ns",), cname, ID_CONTEXTS[cname])
    # identifiers whose FIRST segment is spelled like a reserved word of the lexer (any case): with a namespace
    # behind it every one is a field reference; alone, `any` / `all` are (they are operators only before "(")
    if ctx.shard == 3 % ctx.nshards:
        for kw in ("any", "all", "true", "false", "null", "not", "in", "eq", "and", "or", "add", "div", "mod"):
            for sp0 in dict.fromkeys([kw, kw.upper(), kw.title(), kw[:-1] + kw[-1].upper(), kw.swapcase()]):
                spellings = [sp0 + ".b", sp0 + ".NiFt.c4", "ns." + sp0, "ns." + sp0 + ".x"]
                if kw in ("any", "all"):
                    spellings.append(sp0)
                for sp in spellings:
                    *ns, nm = sp.split(".")
                    for cname in inames:
                        judge_ident(ctx, sp, nm, tuple(ns), cname, ID_CONTEXTS[cname])
                ctx.cls("ident:reserved-first-segment")
    if ctx.shard == 2 % ctx.nshards:
        for nm in L.HEXLIKE_IDENTS:
            for cname in inames:
                judge_ident(ctx, nm, nm, (), cname, ID_CONTEXTS[cname])
                judge_ident(ctx, "ns." + nm, nm, ("ns",), cname, ID_CONTEXTS[cname])
            ctx.cls("ident:hexlike")
        for sp in ("1" + "0" * 31, "12345678901234567890123456789012", "1234567890123456789012345e123456",
                   "12345678901234567890123456789e12", "20200101", "0" * 32, "-" + "1" * 31, "+" + "1" * 31):
            kind = "float" if "e" in sp else "int"
            exp = {"val": sp, "py": float(sp) if kind == "float" else int(sp)}
            for cname, cterm in list(CONTEXTS.items())[:4]:
                judge_literal(ctx, kind, sp, exp, cname, cterm)
            ctx.cls("literal:shape-of-another-kind")
    # identifiers that are (case variants of) built-in function names: a field reference is
    # never a function call, and its spelling is kept letter for letter
    from ..ref.functable import ARITY
    if ctx.shard == 1 % ctx.nshards:
        for fn in sorted(ARITY):
            for sp in dict.fromkeys([fn, fn.title(), fn.upper(), fn.swapcase(), fn.lower(),
                                     fn[:1].upper() + fn[1:]]):
                *ns, nm = sp.split(".")
                for cname in inames:
                    judge_ident(ctx, sp, nm, tuple(ns), cname, ID_CONTEXTS[cname])
                ctx.cls("ident:function-name")
    contracts.flush_counts(ctx)


def requirements(m):
    out = []
    for k in L.KINDS:
        if m["classes"].get("lit:" + k, 0) < 50:
            out.append("literal kind under-exercised: " + k)
    for c in CONTEXTS:
        if not m["classes"].get("ctx:" + c):
            out.append("context never used: " + c)
    if not m["classes"].get("ident"):
        out.append("no identifiers")
    if not m["counters"].get("M-parse"):
        out.append("M-parse never evaluated")
    return out


def replay(ctx, case):
    out = drive.parse_term(case["text"])
    print(case["text"], "->", out)
    if out[0] != "ok":
        ctx.fail(case, "rejected", observed=out)
