"""C19 - whitespace layout and keyword case do not change the meaning of a filter.

Refuting events for an accepted filter F and a variant F' (other non-empty whitespace
runs, optional whitespace inserted where the grammar allows it, other letter case of
operator / literal keywords): parse(F') fails; its tree differs from parse(F) in structure
or literal values; or a backend translates the two differently (SQLite dialect, Django,
SQLAlchemy: executed ids; standard / Athena dialects: token-normalised text).
"""
import random
import sqlite3

from odata_query import exceptions
from odata_query.sql import AstToSqlVisitor
from odata_query.sql.athena import AstToAthenaSqlVisitor
from odata_query.sql.sqlite import AstToSqliteSqlVisitor

from .. import drive, findings
from ..envs import django_env, sqla_env, sqlite_env
from ..gen import fullgen, rows as RW, scalar, terms as T
from ..gen.printer import to_text, Style
from ..mon import contracts
from ..ref import sql_lex
from ..ref.decode import decode

RULE = ("accepted filters from the full grammar (parse level) and from the typed scalar "
        "fragment (backend level) x variants: every required whitespace run replaced by a "
        "random non-empty run of space/tab/newline, optional whitespace inserted inside "
        "parentheses / lists / calls / lambdas and around commas and the lambda colon, letter "
        "case of operator and literal keywords (eq AND Not NULL True in any all duration "
        "geography, T/Z, exponent e, duration designators) flipped at random. distinct = "
        "distinct (filter, variant); non-trivial = variant text differs from the canonical text")
RULE += (" " + 'Also: one whitespace position stretched to 129..4096 (rarely 70000) characters; whitespace pool with CR, FF, VT and Unicode spaces; every shape of the date-time literal.')
ASSUMPTIONS = ["function names, identifiers and GUID hex digits are left alone (case sensitive "
               "by specification)",
               "no whitespace is inserted after unary minus, inside f() or at the ends of the "
               "filter (the grammar has no optional whitespace there)"]
SHARDS = {"quick": 12, "thorough": 16}
BUDGET_S = {"quick": 55, "thorough": 700}

WS = [" ", "  ", "\t", "\n", " \t ", "\n  ", "   ",
      # runs made of ONE kind of character only, carriage returns, form feed / vertical tab,
      # and the Unicode spaces \\s matches
      "\r", "\r\r", "\r\n", "\n\n", "\t\t", "\f", "\v", "\u00a0", "\u2003", "\u3000", "\u2028", " \r", "\r "]


LONG_RUNS = [129, 130, 255, 256, 257, 1000, 4096, 70000]


class Variant(Style):
    def __init__(self, rng, ws=True, case=True, long_at=None, long_len=0):
        self.rng, self.ws, self.case = rng, ws, case
        # the long_at-th whitespace position (required or optional) becomes ONE long run
        self.long_at, self.long_len, self.positions = long_at, long_len, 0

    def _long(self):
        self.positions += 1
        if self.long_at is not None and self.positions - 1 == self.long_at:
            unit = self.rng.choice([" ", "\t", "\n", " \t\n"])
            return (unit * self.long_len)[: self.long_len]
        return None

    def req(self):
        run = self._long()
        if run is not None:
            return run
        return self.rng.choice(WS) if self.ws else " "

    def opt(self, default=""):
        run = self._long()
        if run is not None:
            return run
        if not self.ws:
            return default
        r = self.rng.random()
        if r < 0.5:
            return default
        if r < 0.65:
            return ""
        return self.rng.choice(WS)

    def _flip(self, w):
        m = self.rng.randrange(4)
        if m == 0:
            return w
        if m == 1:
            return w.upper()
        if m == 2:
            return w.capitalize()
        return "".join(c.upper() if self.rng.random() < 0.5 else c.lower() for c in w)

    def kw(self, word):
        return self._flip(word) if self.case else word

    def lit(self, kind, text):
        if not self.case:
            return text
        if kind == "datetime":
            return "".join(self._flip(c) if c in "TZtz" else c for c in text)
        if kind == "float":
            return "".join(self._flip(c) if c in "eE" else c for c in text)
        if kind == "duration":
            return self._flip(text)
        return text


def norm_term(t):
    """Compare literals by value where the statement says 'same literal values'."""
    def f(x):
        if x[0] == "lit":
            if x[1] in ("bool", "null"):
                return ("lit", x[1], x[2].lower())
            if x[1] in ("datetime", "duration"):
                return ("lit", x[1], x[2].upper())
            if x[1] == "float":
                return ("lit", "float", x[2].lower())
        return x
    return T.map_term(f, t)


def sql_norm(sql):
    toks = sql_lex.lex(sql)
    out = []
    for tk in toks:
        if tk[0] == "STR":
            out.append(("STR", tk[1].upper() if len(tk[1]) > 12 and tk[1][5] == "-" and tk[1][8] == "-" else tk[1]))
        elif tk[0] == "WORD":
            out.append(("WORD", tk[1].upper()))
        elif tk[0] == "NUM":
            out.append(("NUM", tk[1].lower()))
        else:
            out.append(tk[:2])
    return out


def backend_results(text, rows):
    """-> {backend: comparable result}"""
    res = {}
    o = drive.parse_ast(text)
    if o[0] != "ok":
        return {"parse": ("rejected", o[1])}
    node = o[1]
    for name, cls in (("sql-standard", AstToSqlVisitor), ("sql-athena", AstToAthenaSqlVisitor)):
        try:
            res[name] = ("sql", sql_norm(cls().visit(node)))
        except exceptions.ODataException as e:
            res[name] = ("refused", type(e).__name__)
        except Exception as e:
            res[name] = ("raises", type(e).__name__)
    try:
        where = AstToSqliteSqlVisitor().visit(node)
        res["sql-sqlite"] = ("ids", sqlite_env.select_ids(where))
    except exceptions.ODataException as e:
        res["sql-sqlite"] = ("refused", type(e).__name__)
    except (sqlite3.Error, ValueError) as e:
        res["sql-sqlite"] = ("db-error", str(e)[:60])
    except Exception as e:
        res["sql-sqlite"] = ("raises", type(e).__name__)
    from .c02 import select as dj_select
    from .c03 import run_style
    from . import scalar_common as SC
    try:
        from odata_query.django import apply_odata_query
        M = django_env.models()
        res["django"] = ("ids", sorted(apply_odata_query(M.T.objects.all(), text).values_list("id", flat=True)))
    except exceptions.ODataException as e:
        res["django"] = ("refused", type(e).__name__)
    except Exception as e:
        res["django"] = ("raises", type(e).__name__)
    for style in ("orm-select", "core"):
        try:
            res["sqla-" + style] = ("ids", run_style(style, text))
        except exceptions.ODataException as e:
            res["sqla-" + style] = ("refused", type(e).__name__)
        except Exception as e:
            res["sqla-" + style] = ("raises", type(e).__name__)
    return res


class PinVariant(Style):
    """Exactly ONE whitespace position (required or optional) gets the given run; all the
    others keep their default."""
    def __init__(self, at, run):
        self.at, self.run, self.positions = at, run, 0

    def _here(self):
        self.positions += 1
        return self.positions - 1 == self.at

    def req(self):
        here = self._here()
        return self.run if here and self.run else " "       # required whitespace is never removed

    def opt(self, default=""):
        return self.run if self._here() else default

    def kw(self, word):
        return word

    def lit(self, kind, text):
        return text


GRID_FILTERS = [
    "-a add b eq 7", "- a mul b lt c", "-(a add b) sub c eq 1", "not a and b", "not (a or b) and c", "not a eq b",
    "a add b mul c eq d", "a eq 1 and b ne 2 or c gt 3", "a in (1, 2, 3) and b", "not a in (1, 2)", "-a in (1, 2) or b",
    "contains(s, 'x') and startswith(t, 'y')", "my.f(a, b, k=1) eq 2", "xs/any(x: x/a eq 1 and x/b gt 2)", "xs/all(x: not x/a) or c",
    "xs/any() and a", "a/b/c eq d/e", "(a add b) mul (c sub d) eq 0", "a eq -1 and b eq - 2", "x eq 2020-01-01T00:00:00Z and y eq duration'P1D'",
    "length(s) add 1 eq indexof(t, 'q')", "a eq null or null ne b", "(a, b) eq c", "a div -b gt 0", "-a eq -b",
]


def judge_ws_grid(ctx):
    """Every whitespace position (required and optional) of 25 filters that together use every
    place the grammar has one - after unary minus and not, around operators, brackets, commas,
    colons - x every whitespace run of the pool, ONE position at a time: the tree never changes."""
    j = 0
    for text in GRID_FILTERS:
        o = drive.parse_term(text)
        if o[0] != "ok":
            ctx.count("base_rejected")
            continue
        t, want = o[1], norm_term(o[1])
        probe = PinVariant(-1, "")
        to_text(t, style=probe)
        for at in range(probe.positions):
            for run in WS + [""]:
                j += 1
                if not ctx.mine(j):
                    continue
                v = to_text(t, style=PinVariant(at, run))
                ctx.count("evaluations")
                ctx.count("ws_grid_cells")
                ctx.cls("ws-grid")
                o2 = drive.parse_term(v)
                if o2[0] == "ok" and norm_term(o2[1]) == want:
                    continue
                ctx.fail({"filter": text, "variant": v, "mode": "ws-grid", "position": at, "run": repr(run)},
                         "variant spelling parses differently" if o2[0] == "ok" else "variant spelling is rejected",
                         expected=want, observed=o2 if o2[0] != "ok" else norm_term(o2[1]),
                         keys=findings.parse_triggers(t, v), cls="ws-grid", sig=["ws-grid", o2[0], text[:12]])


def judge_parse(ctx, t, rng, cls):
    base = to_text(t)
    o = drive.parse_term(base)
    if o[0] != "ok":
        ctx.count("base_rejected")
        return
    want = norm_term(o[1])
    for mode in ("ws", "case", "both"):
        v = Variant(random.Random(rng.random()), ws=mode != "case", case=mode != "ws")
        text = to_text(t, style=v)
        ctx.count("evaluations")
        ctx.cls("variant:" + mode)
        if text == base:
            continue
        ctx.seen([base, text])
        o2 = drive.parse_term(text)
        if o2[0] == "ok" and norm_term(o2[1]) == want:
            continue
        ctx.fail({"filter": base, "variant": text, "mode": mode},
                 "variant spelling parses differently" if o2[0] == "ok" else
                 "variant spelling is rejected", expected=want,
                 observed=o2 if o2[0] != "ok" else norm_term(o2[1]),
                 keys=findings.parse_triggers(t, text), cls=cls, sig=["parse", mode, o2[0]])


def judge_long_runs(ctx, t, rng, cls):
    """One whitespace position (required or optional) stretched to a very long run."""
    base = to_text(t)
    o = drive.parse_term(base)
    if o[0] != "ok":
        return
    want = norm_term(o[1])
    probe = Variant(random.Random(0), ws=False, case=False)
    to_text(t, style=probe)
    if not probe.positions:
        return
    for _ in range(2):
        at = rng.randrange(probe.positions)
        n = rng.choice(LONG_RUNS[:-1]) if rng.random() < 0.97 else LONG_RUNS[-1]
        v = Variant(random.Random(rng.random()), ws=False, case=False, long_at=at, long_len=n)
        text = to_text(t, style=v)
        ctx.count("evaluations")
        ctx.cls("variant:long-run")
        ctx.cls("long-run:%d" % n)
        ctx.seen([base, at, n])
        o2 = drive.parse_term(text)
        if o2[0] == "ok" and norm_term(o2[1]) == want:
            continue
        ctx.fail({"filter": base, "position": at, "run_length": n, "mode": "long-run"},
                 "a long whitespace run parses differently" if o2[0] == "ok" else
                 "a long whitespace run is rejected", expected=want,
                 observed=o2 if o2[0] != "ok" else norm_term(o2[1]),
                 keys=findings.parse_triggers(t, text), cls=cls, sig=["parse", "long", o2[0]])


def judge_backends(ctx, t, rng, rows_loaded, cls):
    base = to_text(t)
    v = Variant(random.Random(rng.random()))
    text = to_text(t, style=v)
    if text == base:
        return
    ctx.count("evaluations")
    ctx.seen([base, text, "backends"])
    a = backend_results(base, rows_loaded)
    b = backend_results(text, rows_loaded)
    for k in a:
        ctx.cls("backend:" + k)
        ctx.count("backend_pairs")
        if a[k][0] in ("ids", "sql"):
            ctx.count("backend_pairs_translated")
        if a[k] != b.get(k):
            ctx.fail({"filter": base, "variant": text, "backend": k},
                     "backend translates the two spellings differently",
                     expected=str(a[k])[:400], observed=str(b.get(k))[:400],
                     keys=findings.case_triggers(text, k), cls=cls, sig=["backend", k, a[k][0], (b.get(k) or ("?",))[0]])


def run(ctx):
    contracts.install_parse()
    contracts.install_visit_trace()
    django_env.setup()
    sqla_env.engine()
    rng = ctx.rng("c19")
    o = fullgen.Opts()
    judge_ws_grid(ctx)
    for i in range(ctx.pick(1500, 40000)):
        if ctx.out_of_time():
            break
        t = fullgen.gen_expr(rng, o, rng.randint(1, 5))
        if T.size(t) > 150:
            continue
        judge_parse(ctx, t, rng, "full-grammar")
        if i % 3 == 0:
            judge_long_runs(ctx, t, rng, "full-grammar")
        if i % 400 == 0:
            ctx.sample({"filter": to_text(t)[:120],
                        "variant": to_text(t, style=Variant(random.Random(i)))[:160]})
    # backend level: typed filters on loaded data
    p = scalar.Profile()
    p.funcs = {"contains", "startswith", "endswith", "length", "indexof", "substring", "tolower",
               "toupper", "trim", "concat", "year", "month", "day", "hour", "minute", "round",
               "floor", "ceiling"}
    p.neg = p.neg_literal = False
    p.bare_bool_column = False
    p.bare_bool_literal = True
    p.bool_cmp_atoms = False
    p.pattern_columns = False
    p.pattern_exprs = False
    # every shape of the date-time literal (the reference evaluator is not involved here:
    # the two spellings are compared with each other)
    p.datetime_lits = scalar.DT_LITS + ["2020-01-01T00:00:00Z", "2020-01-01T00:00:00+00:00",
                                        "2019-12-31T23:59:59-00:00", "2020-01-01T00:00+00:00",
                                        "2020-01-01T01:00:00+01:00", "2021-06-15T12:30:45.000Z",
                                        "2021-06-15T12:30"]
    allrows = RW.rows_for(["a", "s", "d", "flag", "f"], rng, 150)
    sqlite_env.load(allrows)
    from .c02 import load as dj_load
    dj_load(allrows)
    sqla_env.load_scalar(allrows)
    for i in range(ctx.pick(220, 5000)):
        if ctx.out_of_time():
            break
        t = scalar.gen_bool(rng, p, rng.randint(1, 4))
        if T.size(t) > 60:
            continue
        judge_backends(ctx, t, rng, allrows, "typed")
    contracts.flush_counts(ctx)


def requirements(m):
    out = []
    c = m["counters"]
    if not m["classes"].get("variant:long-run"):
        out.append("long whitespace runs never exercised")
    if c.get("backend_pairs_translated", 0) < 300:
        out.append("fewer than 300 translated backend pairs")
    for b in ("sql-standard", "sql-athena", "sql-sqlite", "django", "sqla-orm-select", "sqla-core"):
        if not m["classes"].get("backend:" + b):
            out.append("backend never compared: " + b)
    for v in ("ws", "case", "both"):
        if not m["classes"].get("variant:" + v):
            out.append("variant class never generated: " + v)
    return out


def replay(ctx, case):
    a, b = drive.parse_term(case["filter"]), drive.parse_term(case["variant"])
    print(a[0], b[0])
    if b[0] != "ok" or norm_term(a[1]) != norm_term(b[1]):
        ctx.fail(case, "variant differs", observed=b)
