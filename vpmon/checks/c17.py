"""C17 - making a lambda body relative strips exactly the lambda variable's prefix.

Refuting events: decode(expression_relative_to_identifier(Identifier(x), e)) !=
reroot_ref(decode(e), x); the input changed (M-immut); identity violated when x does not
occur as a path root.
"""
from odata_query import ast, utils

from .. import drive, findings
from ..gen import fullgen, terms as T
from ..gen.printer import to_text
from ..mon import contracts
from ..ref.decode import decode, norm_for_parse
from ..ref.subst import reroot_ref, path_root
from ..shrink import shrink

RULE = ("full-grammar terms (depth <= 5 / 7) with paths of depth 1..4 rooted at the variable "
        "in every operand position, inside calls, lists, arithmetic, comparisons, named "
        "parameters and nested lambdas binding a different name; variable names that also "
        "occur as plain fields, inner segments (y/x/a), attribute names (x/x/a) and namespaced "
        "identifiers (ns.x/a). distinct = distinct (term text, variable); non-trivial = the "
        "variable occurs as a path root at least once")
RULE += (" " + 'Also: variable spelled like a called function / segment / parameter name; paths of 120..420 segments (before the tracer is installed); nested lambdas whose variable is a namespaced homonym.')
ASSUMPTIONS = ["nested lambdas re-binding the same name are outside the quantifier"]
SHARDS = {"quick": 10, "thorough": 16}
BUDGET_S = {"quick": 40, "thorough": 500}
VARS = ["x", "y", "it", "a", "name", "author", "c1"]


def inject(rng, t, var):
    """Rewrite some leaves of t into paths involving var in the hostile ways."""
    def f(n):
        if n[0] in ("id",) and rng.random() < 0.45:
            m = rng.randrange(8)
            segs = [rng.choice(fullgen.ATTRS + [var]) for _ in range(rng.randint(1, 3))]
            if m <= 3:
                return T.path(var, *segs)                 # x/a[/b[/c]]
            if m == 4:
                return T.path("y", var, *segs)            # inner segment
            if m == 5:
                return ("attr", ("id", var, ("ns",)), segs[0])   # ns.x/a
            if m == 6:
                return T.ident(var)                       # plain field with the same name
            return T.path(var, var, *segs)                # x/x/a
        if n[0] == "lam" and n[3] == var:
            # re-binding the same name is outside the quantifier: rename the inner binder
            return ("lam", n[1], n[2], None, None)
        return n
    return T.map_term(f, t)


def one(t, var):
    text = to_text(t)
    o = drive.parse_ast(text)
    if o[0] != "ok":
        return ("source-rejected", o[:2])
    node = o[1]
    before = decode(node)
    try:
        res = utils.expression_relative_to_identifier(ast.Identifier(var), node)
    except contracts.MonitorViolation as e:
        return ("monitor:" + e.monitor, str(e)[:300])
    except Exception as e:
        return ("raises", (type(e).__name__, str(e)[:200]))
    if decode(node) != before:
        return ("input-mutated", None)
    try:
        got = decode(res)
    except Exception as e:
        return ("result-not-an-ast", str(e)[:200])
    want = reroot_ref(before, var)
    if got != want:
        return ("differs-from-reference", {"got": got, "want": want})
    return (None, None)


def roots_at(t, var):
    return any(n[0] == "attr" and n[1] == ("id", var, ()) for n in T.walk(t))


def judge(ctx, t, var, cls, do_shrink=True):
    ctx.count("evaluations")
    if roots_at(t, var):
        ctx.seen([to_text(t), var])
        ctx.cls("var-is-path-root")
    else:
        ctx.cls("var-absent-identity")
    prob, detail = one(t, var)
    if prob in (None, "source-rejected"):
        return
    def still(t2):
        return one(t2, var)[0] == prob
    small = shrink(t, still, max_tries=150) if do_shrink else t
    if small is not t and still(small):
        t = small
        prob, detail = one(t, var)
    ctx.fail({"term": t, "text": to_text(t), "var": var}, prob,
             expected=detail.get("want") if isinstance(detail, dict) else None,
             observed=detail.get("got") if isinstance(detail, dict) else detail,
             keys=findings.parse_triggers(t), cls=cls, sig=[prob])


def run(ctx):
    contracts.install_parse()
    # (this lane runs BEFORE the visit tracer is installed: the tracer's own frames would
    # exhaust the interpreter's recursion limit on paths the library itself handles)
    # long paths (hundreds of segments): rooted at the variable, at a namespaced homonym of
    # it, and at another field - inside a comparison, a call and a list
    j = 0
    for nseg in ctx.pick([120, 255, 300, 420], [64, 120, 249, 250, 251, 255, 300, 420, 480]):
        for root in (("id", "x", ()), ("id", "x", ("ns",)), ("id", "y", ()), ("id", "x", ("my", "pkg"))):
            j += 1
            if not ctx.mine(j):
                continue
            p_ = root
            for k in range(nseg):
                p_ = ("attr", p_, "s%d" % (k % 7))
            for wrap in (lambda q: ("cmp", "eq", q, T.I(1)), lambda q: T.call("tolower", q),
                         lambda q: ("cmp", "in", T.ident("a"), T.lst(q, T.path("x", "k")))):
                judge(ctx, wrap(p_), "x", "long-path", do_shrink=False)
            ctx.cls("long-path:%d" % nseg)
    contracts.install_visit_trace()
    rng = ctx.rng("c17")
    o = fullgen.Opts()
    maxd = ctx.pick(5, 7)
    for i in range(ctx.pick(3000, 60000)):
        if ctx.out_of_time():
            break
        var = rng.choice(VARS)
        t = fullgen.gen_expr(rng, o, rng.randint(1, maxd), var=var if rng.random() < 0.5 else None)
        if T.size(t) > 200:
            continue
        t = norm_for_parse(inject(rng, t, var))
        if rng.random() < 0.08:
            # a nested lambda whose own variable shares the LAST name segment with `var`
            # (ns.x inside the body made relative to x): a different identifier, no shadowing
            ns = rng.choice([("ns",), ("m",), ("my", "pkg")])
            nv = ".".join(ns + (var,))
            inner = ("cmp", "eq", ("attr", ("id", var, ns), "text"), ("attr", T.ident(var), "title"))
            lam = ("lam", ("attr", T.ident(var), "comments") if rng.random() < 0.5 else T.ident("items"),
                   rng.choice(["any", "all"]), nv, inner)
            t = ("bool", rng.choice(["and", "or"]), t, lam) if rng.random() < 0.7 else lam
            ctx.cls("nested-lambda-var-homonym")
        if rng.random() < 0.3:
            # the variable spelled like something that plays ANOTHER role in the same body:
            # a called function, a path segment, a named-parameter name
            roles = []
            for n in T.walk(t):
                if n[0] == "call":
                    roles.append((n[1].split(".")[-1], "function") if "." in n[1] else (n[1], "function"))
                elif n[0] == "attr":
                    roles.append((n[2], "segment"))
                elif n[0] == "np":
                    roles.append((n[1][1], "param-name"))
            bound = {n[3] for n in T.walk(t) if n[0] == "lam" and n[3]}
            roles = [r for r in roles if r[0] not in bound]
            if roles:
                h, role = rng.choice(roles)
                t = T.map_term(lambda x: ("id", h, ()) if x == ("id", var, ()) else x, t)
                ctx.cls("var-named-like-" + role)
                judge(ctx, t, h, "homonym:" + role)
                continue
        judge(ctx, t, var, "random")
        if i % 7 == 0:
            judge(ctx, t, "zz_absent", "absent")
        if i % 600 == 0:
            ctx.sample({"text": to_text(t)[:160], "var": var,
                        "relative": to_text(reroot_ref(t, var))[:160]})
    directed = [("x/a eq 1", "x"), ("x/a/b eq x/c", "x"), ("y/x/a eq 1", "x"), ("ns.x/a eq 1", "x"),
                ("x/x/a eq x", "x"), ("contains(x/name, 'a') and x/n in (x/a, 2)", "x"),
                ("x/items/any(y: y/p gt x/q)", "x"), ("my.f(k=x/a, j=(x/b,))", "x"),
                ("-x/a add x/b/c mul 2 gt 0", "x"), ("a eq 1", "x"),
                ("year(year/published_at) eq 2020", "year"), ("length(length/name) eq 5", "length"),
                ("contains(name/first, 'a') and a/name eq name/last", "name"),
                ("my.f(k=k/a)", "k"), ("ns.f(f/a)", "f"), ("date(d/date) eq date/d", "date"),
                ("x/comments/any(ns.x: ns.x/text eq x/title)", "x"),
                ("items/any(m.x: m.x/a gt x/b and x/c in (m.x/d, 1))", "x"),
                ("x/a/any(x1: x1/b/any(ns.x: ns.x/c eq x/d and x1/e eq x/f))", "x")]
    if ctx.shard == 0:
        for text, var in directed:
            t = drive.parse_term(text)[1]
            judge(ctx, t, var, "directed")
    contracts.flush_counts(ctx)


def requirements(m):
    out = []
    if not m["counters"].get("M-immut"):
        out.append("M-immut never evaluated")
    for k in ("var-is-path-root", "var-absent-identity"):
        if not m["classes"].get(k):
            out.append("class never generated: " + k)
    return out


def replay(ctx, case):
    t = drive.parse_term(case["text"])[1]
    prob, detail = one(t, case["var"])
    print(prob, detail)
    if prob:
        ctx.fail(case, prob, observed=detail)
