"""C20 - lexer and parser instances are reusable and deterministic.

Offline checker over recorded histories [(instances, input, outcome)]: every outcome must
equal the model = outcome of a fresh lexer+parser on that input.  Histories: shared
instances, crossed pairs, abandoned token generators, token streams of different
instances interleaved step by step, parses nested inside another parser's token pulls,
threads with their own instances under a tiny switch interval (thorough: injected yields
at LINE events inside the LR loop), fresh child processes with different PYTHONHASHSEED
and import orders, AliasRewriter built on used / previously failed instances.
"""
import hashlib
import json
import os
import subprocess
import sys
import threading
import time

from odata_query import exceptions
from odata_query.grammar import ODataLexer, ODataParser

from ..gen import fullgen, terms as T
from ..gen.printer import to_text
from ..mon import contracts
from ..ref.decode import fingerprint
from .c10 import mutate, _TOK

RULE = ("histories of 5..50 parse calls on one shared (lexer, parser) pair and on crossed "
        "pairs, mixing valid filters, syntax errors at first/middle/EOF position, tokenising "
        "errors, unknown-function / argument-count errors and abandoned token generators, "
        "each outcome compared with a fresh pair; token-level interleaving of several "
        "tokenize() generators; parses nested in another parse's token stream; N threads with "
        "own instances (switch interval 1e-6; thorough: sleep(0) injected at LINE events in "
        "grammar.py and sly); child processes with PYTHONHASHSEED in {0..7} / {0..63} x 3 "
        "import orders over a 600-string corpus; AliasRewriter with used instances. distinct = "
        "distinct (history prefix digest, probe); non-trivial = history contains at least one "
        "raising call before the probe")
RULE += (" " + 'Also: near-twin corpus entries, inputs with two error causes, failed AliasRewriter constructions followed by probes.')
RULE += (" " + 'Poisons also truncated at every character (inside tokens); probes with every quoted literal kind.')
ASSUMPTIONS = ["sharing one lexer instance between threads is not claimed by the property",
               "model outcome = fresh ODataLexer()/ODataParser() in the same interpreter, and "
               "across interpreters via outcome digests"]
SHARDS = {"quick": 10, "thorough": 16}
BUDGET_S = {"quick": 50, "thorough": 700}


def outcome(text, lexer, parser, tokens=None):
    try:
        node = parser.parse(tokens if tokens is not None else lexer.tokenize(text))
        return ("ok", fingerprint(node)[0])
    except exceptions.ODataException as e:
        return ("lib", type(e).__name__, str(e))
    except contracts.MonitorViolation as e:
        return ("monitor", str(e)[:200])
    except Exception as e:
        return ("foreign", type(e).__name__, str(e)[:200])


def near_twin(rng, t):
    """The same filter except for ONE small detail a too-coarse cache key would ignore:
    the namespace of one identifier (also of a path root), the letter case of one name, or
    one path segment."""
    from ..shrink import _positions, _replace_at
    ids = [(pos, x) for pos, x in _positions(t) if x[0] == "id"]
    attrs = [(pos, x) for pos, x in _positions(t) if x[0] == "attr"]
    r = rng.random()
    if ids and r < 0.6:
        pos, x = rng.choice(ids)
        ns = rng.choice([("Shop",), ("ns",), ("my", "pkg")]) if not x[2] or rng.random() < 0.3 else ()
        if ns == x[2]:
            ns = ("other",)
        return _replace_at(t, pos, ("id", x[1], ns))
    if ids and r < 0.8:
        pos, x = rng.choice(ids)
        if x[1].swapcase() != x[1]:
            return _replace_at(t, pos, ("id", x[1].swapcase(), x[2]))
    if attrs:
        pos, x = rng.choice(attrs)
        return _replace_at(t, pos, ("attr", x[1], x[2] + "2"))
    return None


def corpus(rng, n):
    """Mixed corpus: (class, text)."""
    o = fullgen.Opts()
    out = []
    while len(out) < n:
        t = fullgen.gen_expr(rng, o, rng.randint(1, 4))
        text = to_text(t, rng.choice(["min", "full"]))
        if len(text) > 400:
            continue
        out.append(("valid", text))
        if rng.random() < 0.4:
            try:
                t2 = near_twin(rng, t)
            except Exception:
                t2 = None
            if t2 is not None and t2 != t:
                out.append(("twin", to_text(t2, rng.choice(["min", "full"]))))
        toks = _TOK.findall(text)
        r = rng.random()
        if r < 0.25:
            out.append(("mutant", mutate(rng, toks)))
        elif r < 0.35:
            out.append(("err-first", ") " + text))
        elif r < 0.45:
            out.append(("err-eof", text + " and"))
        elif r < 0.55:
            out.append(("err-middle", "".join(toks[: len(toks) // 2]) + " ) ( " + "".join(toks[len(toks) // 2:])))
        elif r < 0.65:
            out.append(("tok-error", text[: len(text) // 2] + " # " + text[len(text) // 2:]))
        elif r < 0.72:
            out.append(("func-unknown", "nosuchfunc(" + text + ")"))
        elif r < 0.80:
            out.append(("func-count", "contains(" + text + ")"))
        elif r < 0.92:
            # TWO error causes in one input, in either order: whichever is reported, nothing
            # of the other may survive on the instance
            first = rng.choice([("func-unknown", "nosuchfunc(" + text + ")"),
                                ("func-count", "contains(" + text + ")"),
                                ("func-count0", "length() eq 1 and " + text)])
            tail = rng.choice([("tok", " and name eq #"), ("tok-open-string", " and name eq 'abc"),
                               ("syntax", " and )"), ("eof", " and"), ("second-func", " and nosuch2(1)"),
                               ("tok-far", " and " + text + " and x eq #")])
            out.append(("two-errors:%s+%s" % (first[0], tail[0]), first[1] + tail[1]))
            if rng.random() < 0.5:
                out.append(("two-errors:%s+%s:reversed" % (first[0], tail[0]),
                            "# eq 1 and " + first[1]))
    return out[:n]


FIXED = [("tok-error", "#"), ("err-eof", ""), ("err-first", ")"), ("err-eof", "a eq"),
         ("valid", "a eq 1"), ("func-count", "length()"), ("func-unknown", "f(1)"),
         ("tok-error", "a eq 'unterminated"), ("valid", "x/any(y: y/z eq 'q')"),
         ("err-middle", "my.f(a=1, 2)"), ("valid", "my.f(a=1,b=2,c=3)")]


class Model:
    def __init__(self):
        self.memo = {}

    def get(self, text):
        if text not in self.memo:
            self.memo[text] = outcome(text, ODataLexer(), ODataParser())
        return self.memo[text]


def fail_hist(ctx, kind, hist, i, got, want):
    tail = [{"input": h[0], "outcome": h[1][:2]} for h in hist[max(0, i - 6): i + 1]]
    ctx.fail({"history_kind": kind, "position": i, "history_tail": tail,
              "history": [h[0] for h in hist[: i + 1]]},
             "outcome on a reused instance differs from a fresh lexer+parser",
             expected=want, observed=got, cls=kind, sig=[kind, want[0], got[0]])


def run_histories(ctx, model, rng, corp):
    n_hist = ctx.pick(220, 3000)
    for hno in range(n_hist):
        if ctx.out_of_time():
            break
        kind = rng.choice(["shared", "shared", "crossed", "abandon"])
        lexers = [ODataLexer() for _ in range(2)]
        parsers = [ODataParser() for _ in range(2)]
        length = rng.randint(5, 50)
        hist = []
        raised_before = False
        dig = hashlib.blake2b(digest_size=8)
        for i in range(length):
            cls, text = rng.choice(corp) if rng.random() < 0.85 else rng.choice(FIXED)
            if kind == "shared":
                lx, ps = lexers[0], parsers[0]
            else:
                lx, ps = rng.choice(lexers), rng.choice(parsers)
            if kind == "abandon" and rng.random() < 0.3:
                # pull a few tokens and abandon the generator (never closed explicitly)
                g = lx.tokenize(text)
                try:
                    for _ in range(rng.randint(0, 3)):
                        next(g)
                except (StopIteration, exceptions.ODataException):
                    pass
                ctx.count("abandoned_generators")
            got = outcome(text, lx, ps)
            want = model.get(text)
            ctx.count("evaluations")
            ctx.count("history_calls")
            ctx.cls("call:" + cls)
            hist.append((text, got))
            if raised_before:
                ctx.seen([dig.hexdigest(), text])
            dig.update(text.encode("utf-8", "surrogatepass"))
            if got != want:
                fail_hist(ctx, kind, hist, i, got, want)
                break
            if got[0] != "ok":
                raised_before = True
        ctx.cls("history:" + kind)
        if hno % 97 == 0:
            ctx.sample({"kind": kind, "calls": [(h[0][:60], h[1][:2]) for h in hist[:6]]})


# constructs of the OData ABNF that this library does not implement: rejected - and rejected the
# SAME way whatever the instance went through before
ABNF_UNSUPPORTED = ["$count gt 1", "xs/$count gt 1", "$it/a eq 1", "$root/a eq 1", "$this eq 1", "@p1 eq 1",
                    "a eq @p1", "cast(a, Edm.String) eq 'x'", "isof(a, ns.T)", "a has ns.Color'Red'",
                    "a divby 2 eq 1", "ns.Color'Red' eq c", "a eq {\"k\":1}", "a in [1,2]", "a/ns.T/b eq 1",
                    "1 lt $count", "null eq $count", "not ($count eq 2)", "a eq b/$count", "$filter eq 1"]


def truncations(text):
    """Every prefix of `text` that ends at a token boundary (the parse stops there)."""
    toks = _TOK.findall(text)
    out, acc = [], ""
    for tk in toks:
        acc += tk
        if acc.strip():
            out.append(acc)
    return out


def run_poison_probe(ctx, model):
    """After an input whose parse ends AT every possible point (every token-boundary prefix
    of a few filters that use every kind of token), each probe - valid filters and
    unsupported ABNF constructs - behaves as on fresh instances."""
    seeds = ["comments/any(c: c/score gt 1) and a/b/c eq 'x'", "my.f(k=1, v=(1, 2)) eq -3 or not contains(s, 'q')",
             "d gt 2020-01-01T00:00:00Z and x in (duration'P1D', 1.5e3, null)", "a/b",
             "geo.distance(p, geography'POINT(1 2)') lt 5 add 2 mul 3", "1/2", "a//b", "a/ b", "a/1"]
    poisons = []
    for sd in seeds:
        poisons.extend(truncations(sd))
    # ... and at every CHARACTER (the input ends inside a token: an unterminated quoted
    # literal of each kind, half a keyword, half a number)
    for sd in seeds[:5] + ["s eq 'it''s' and t eq duration'-P1DT2H' or g eq geography'SRID=1;P(''x'')' and u eq 'z'"]:
        poisons.extend(sd[:i] for i in range(1, len(sd)))
    poisons = list(dict.fromkeys(poisons))
    probes = ABNF_UNSUPPORTED + ["a eq 1", "x/any(y: y/z eq 'q')", "my.f(a=1,b=2,c=3)", "a/b/c eq 1",
                                 "contains(s, 'x')", "nosuchfunc(1)", "length()", "#",
                                 "t eq duration'P1D' and s eq 'bob' and g eq geography'P' and s eq 'it''s'"]
    n = 0
    for i, poison in enumerate(poisons):
        if not ctx.mine(i):
            continue
        for probe in probes:
            for share in ("both", "lexer", "parser"):
                lx, ps = ODataLexer(), ODataParser()
                outcome(poison, lx, ps)
                plx = lx if share in ("both", "lexer") else ODataLexer()
                pps = ps if share in ("both", "parser") else ODataParser()
                got, want = outcome(probe, plx, pps), model.get(probe)
                n += 1
                ctx.count("evaluations")
                ctx.count("poison_probe_pairs")
                if n % 7 == 0:
                    ctx.seen(["pp", poison, probe, share])
                if got != want:
                    ctx.fail({"history_kind": "poison-then-probe", "poison": poison, "probe": probe,
                              "shared": share},
                             "after an input whose parse stopped part-way, a probe behaves differently "
                             "from fresh instances", expected=want, observed=got, cls="poison-probe",
                             sig=["pp", share])
                    return
    ctx.cls("poison-probe")


def run_interleaved_tokens(ctx, model, rng, corp):
    """Step tokenize() generators of different lexer instances alternately."""
    for _ in range(ctx.pick(150, 3000)):
        if ctx.out_of_time():
            break
        k = rng.randint(2, 4)
        texts = [rng.choice(corp)[1] for _ in range(k)]
        same_lexer = rng.random() < 0.0  # one lexer shared by several live generators: not claimed
        lexers = [ODataLexer() for _ in range(k)]
        gens = [lexers[i].tokenize(texts[i]) for i in range(k)]
        toks = [[] for _ in range(k)]
        errs = [None] * k
        live = list(range(k))
        while live:
            i = rng.choice(live)
            try:
                tk = next(gens[i])
                toks[i].append(tk)
            except StopIteration:
                live.remove(i)
            except exceptions.ODataException as e:
                errs[i] = e
                live.remove(i)
            except Exception as e:
                errs[i] = e
                live.remove(i)
        for i in range(k):
            ctx.count("evaluations")
            ctx.count("interleaved_streams")
            want = model.get(texts[i])

            def replay_stream(i=i):
                for tk in toks[i]:
                    yield tk
                if errs[i] is not None:
                    raise errs[i]
            got = outcome(texts[i], None, ODataParser(), tokens=replay_stream())
            ctx.seen(["il", texts[i], k])
            if got != want:
                ctx.fail({"history_kind": "interleaved-tokenizers", "texts": texts, "index": i},
                         "token stream produced while other lexers were mid-stream differs",
                         expected=want, observed=got, cls="interleave",
                         sig=["il", want[0], got[0]])


def run_nested(ctx, model, rng, corp):
    """Run complete parses of other inputs inside the token pulls of an outer parse."""
    for _ in range(ctx.pick(150, 3000)):
        if ctx.out_of_time():
            break
        outer = rng.choice(corp)[1]
        inner = [rng.choice(corp)[1] for _ in range(rng.randint(1, 3))]
        share_parser = rng.random() < 0.0  # re-entrancy of ONE parser instance is not claimed
        lx, ps = ODataLexer(), ODataParser()
        ilx, ips = ODataLexer(), ODataParser()
        inner_results = []

        def stream():
            for n, tk in enumerate(lx.tokenize(outer)):
                if n % 2 == 1:
                    txt = inner[n % len(inner)]
                    inner_results.append((txt, outcome(txt, ilx, ips)))
                yield tk
        got = outcome(outer, lx, ps, tokens=stream())
        ctx.count("evaluations")
        ctx.count("nested_parses", len(inner_results))
        ctx.seen(["nest", outer, inner])
        bad = []
        if got != model.get(outer):
            bad.append((outer, got, model.get(outer)))
        for txt, g in inner_results:
            if g != model.get(txt):
                bad.append((txt, g, model.get(txt)))
        if bad:
            ctx.fail({"history_kind": "nested", "outer": outer, "inner": inner},
                     "parse interleaved with another instance's parse differs",
                     expected=bad[0][2], observed=bad[0][1], cls="nested",
                     sig=["nest", bad[0][2][0]])


class YieldInjector:
    """sys.monitoring LINE events on grammar.py / sly: sleep(0) with seeded probability."""
    TOOL = 4

    def __init__(self, seed, prob=0.02):
        import random
        self.rng = random.Random(seed)
        self.prob = prob
        self.points = set()
        self.lock = threading.Lock()

    def start(self):
        mon = sys.monitoring
        try:
            mon.use_tool_id(self.TOOL, "vpmon-yield")
        except ValueError:
            pass
        mon.register_callback(self.TOOL, mon.events.LINE, self.on_line)
        mon.set_events(self.TOOL, mon.events.LINE)

    def stop(self):
        mon = sys.monitoring
        mon.set_events(self.TOOL, 0)
        mon.register_callback(self.TOOL, mon.events.LINE, None)
        try:
            mon.free_tool_id(self.TOOL)
        except Exception:
            pass

    def on_line(self, code, line):
        fn = code.co_filename
        if "odata_query/grammar.py" not in fn and "/sly/" not in fn:
            return sys.monitoring.DISABLE
        with self.lock:
            hit = self.rng.random() < self.prob
            if hit:
                self.points.add((os.path.basename(fn), line))
        if hit:
            time.sleep(0)


def run_threads(ctx, model, rng, corp):
    nthreads = ctx.pick(6, 12)
    per = ctx.pick(250, 2500)
    texts = [c[1] for c in corp]
    for t in texts:
        model.get(t)  # model computed before the threads start, single-threaded
    old = sys.getswitchinterval()
    sys.setswitchinterval(1e-6)
    inj = None
    if ctx.thorough():
        inj = YieldInjector(ctx.seed * 1000 + ctx.shard, 0.02)
        inj.start()
    results = [[] for _ in range(nthreads)]
    import random

    def worker(i):
        r = random.Random(ctx.seed * 7919 + i * 13 + ctx.shard)
        lx, ps = ODataLexer(), ODataParser()
        loc = results[i]
        for _ in range(per):
            t = r.choice(texts)
            if r.random() < 0.1:   # fresh instances now and then
                lx, ps = ODataLexer(), ODataParser()
            loc.append((t, outcome(t, lx, ps)))
    ths = [threading.Thread(target=worker, args=(i,)) for i in range(nthreads)]
    t0 = time.time()
    for th in ths:
        th.start()
    for th in ths:
        th.join(timeout=600)
    alive = [th for th in ths if th.is_alive()]
    sys.setswitchinterval(old)
    if inj:
        inj.stop()
        ctx.note_max("distinct_handoff_points", len(inj.points))
        ctx.count("handoff_points", len(inj.points))
    if alive:
        ctx.mark_inconclusive("thread run did not finish within its watchdog")
        return
    for i, loc in enumerate(results):
        for t, got in loc:
            ctx.count("evaluations")
            ctx.count("thread_calls")
            if got != model.get(t):
                ctx.fail({"history_kind": "threads", "thread": i, "text": t,
                          "threads": nthreads},
                         "outcome under thread interleaving differs from a fresh pair",
                         expected=model.get(t), observed=got, cls="threads",
                         sig=["thr", got[0]])
                return
    ctx.cls("thread_runs")


CHILD = r"""
import sys, json, hashlib
order = sys.argv[1]
if order == "ast-first":
    import odata_query.ast, odata_query.exceptions
    import odata_query.grammar
elif order == "rewrite-first":
    import odata_query.rewrite, odata_query.roundtrip
    import odata_query.grammar
else:
    import odata_query.grammar
from vpmon.checks.c20 import outcome
from odata_query.grammar import ODataLexer, ODataParser
from odata_query.rewrite import AliasRewriter
corp = json.load(open(sys.argv[2]))
lx, ps = ODataLexer(), ODataParser()
# every child walks the corpus in its own order, so state kept on a class or module (not
# only on the instance) shows up as an order-dependent outcome
import random
order = list(range(len(corp)))
random.Random(int(sys.argv[3])).shuffle(order)
per = [None] * len(corp)
for i in order:
    o = outcome(corp[i], lx, ps)
    per[i] = hashlib.blake2b(json.dumps(o).encode(), digest_size=4).hexdigest()
h = hashlib.blake2b(digest_size=16)
h.update("".join(per).encode())
rw = AliasRewriter({"a": "x/y", "b/c": "z", "title": "tolower(name)"}, lx, ps)
h.update(repr(sorted((repr(k), repr(v)) for k, v in rw.replacements.items())).encode())
print(json.dumps({"digest": h.hexdigest(), "per": per}))
"""


def run_children(ctx, rng, corp):
    import tempfile
    texts = [c[1] for c in corp][:600]
    seeds = list(range(ctx.pick(8, 64)))
    orders = ["grammar-first", "ast-first", "rewrite-first"]
    jobs = [(s, o) for s in seeds for o in orders]
    mine = [j for i, j in enumerate(jobs) if ctx.mine(i)]
    if not mine:
        return
    d = tempfile.mkdtemp(prefix="vpmon_c20_")
    try:
        cf = os.path.join(d, "corpus.json")
        json.dump(texts, open(cf, "w"))
        # reference digest: this process's view with fresh instances per input
        ref = None
        for s, o in [(0, "grammar-first")] + mine:
            env = dict(os.environ)
            env["PYTHONHASHSEED"] = str(s)
            try:
                p = subprocess.run([sys.executable, "-c", CHILD, o, cf, str(s * 3 + orders.index(o))], env=env,
                                   capture_output=True, text=True, timeout=300)
            except subprocess.TimeoutExpired:
                ctx.mark_inconclusive("child process timed out")
                continue
            if p.returncode != 0:
                ctx.mark_inconclusive("child failed: " + p.stderr[-300:])
                continue
            res = json.loads(p.stdout.strip().splitlines()[-1])
            if ref is None:
                ref = res
                continue
            ctx.count("evaluations")
            ctx.count("child_processes")
            ctx.cls("child:" + o)
            ctx.seen(["child", s, o])
            if res["digest"] != ref["digest"]:
                diff = [texts[i] for i, (a, b) in enumerate(zip(res["per"], ref["per"])) if a != b]
                ctx.fail({"history_kind": "process", "hashseed": s, "import_order": o,
                          "differing_inputs": diff[:5]},
                         "outcome digest differs between processes (hash seed / import order)",
                         expected=ref["digest"], observed=res["digest"], cls="process",
                         sig=["proc"])
    finally:
        import shutil
        shutil.rmtree(d, ignore_errors=True)


def run_rewriter(ctx, model, rng, corp):
    from odata_query.rewrite import AliasRewriter
    maps = [{"a": "x/y", "b/c": "z"}, {"title": "tolower(name)", "author/name": "an"},
            {"name": "ns.other", "c": "p/q/r"}]
    for i in range(ctx.pick(60, 600)):
        lx, ps = ODataLexer(), ODataParser()
        for _ in range(rng.randint(0, 8)):   # use (and break) the instances first
            outcome(rng.choice(corp)[1], lx, ps)
        if i % 3 == 0:
            # ... and make the LAST use one that stops part-way (tokens left unread)
            outcome(rng.choice(["a eq eq 1 and b eq 2", "nope(1) eq 2 and b eq 3", "a eq 1 ) and c", "length() eq 1 or d",
                                "a eq", "x/any(y: y eq ) and z"]), lx, ps)
        m = rng.choice(maps)
        try:
            # the construction that hands over only ONE used instance comes first: the other
            # constructions parse successfully and would tidy the instances up
            order = i % 3
            ponly = AliasRewriter(m, parser=ps).replacements if order == 0 else None
            lonly = AliasRewriter(m, lexer=lx).replacements if order == 1 else None
            used = AliasRewriter(m, lx, ps).replacements
            fresh = AliasRewriter(m).replacements
            half = AliasRewriter(m, lexer=lx).replacements if lonly is None else lonly
            if (ponly if ponly is not None else AliasRewriter(m, parser=ps).replacements) != fresh:
                half = "parser-only differs"
        except Exception as e:
            ctx.fail({"history_kind": "rewriter", "map": m}, "AliasRewriter construction raised",
                     observed=repr(e)[:200], cls="rewriter", sig=["rw-exc"])
            continue
        ctx.count("evaluations")
        ctx.count("rewriter_constructions")
        ctx.seen(["rw", i])
        if not (used == fresh == half):
            ctx.fail({"history_kind": "rewriter", "map": m},
                     "replacements differ between caller-supplied and fresh instances",
                     expected=repr(fresh), observed=repr(used), cls="rewriter", sig=["rw"])
    # constructions that FAIL (a bad key or a bad target, whichever position) on shared
    # instances: afterwards the instances must still behave like fresh ones on every input
    bad_maps = [{"a": "x eq"}, {"a": "#"}, {"a": "contains(x)"}, {"a": "nosuchfunc(x)"},
                {"x eq": "a"}, {"#": "a"}, {"length()": "a"}, {"nosuch(1)": "a"},
                {"ok": "p/q", "a": "x eq"}, {"a": "x eq", "ok": "p/q"}, {"a": "'unterminated"},
                {"a": "my.f(a=1, 2)"}, {"a": ")"}, {"a": ""}]
    probes = [c[1] for c in corp if c[0] in ("func-unknown", "func-count", "valid", "tok-error")][:40] + \
             ["soundex(name) eq 'R163'", "xs/any(y: lpad(y/a) eq 1)", "length() eq 1", "a eq 1"]
    for i, m in enumerate(bad_maps * ctx.pick(1, 4)):
        if not ctx.mine(i):
            continue
        lx, ps = ODataLexer(), ODataParser()
        try:
            AliasRewriter(m, lx, ps)
            ctx.count("bad_map_accepted")
        except Exception:
            ctx.count("bad_map_rejected")
        for text in probes:
            ctx.count("evaluations")
            ctx.seen(["rw-bad", i, text])
            got, want = outcome(text, lx, ps), model.get(text)
            if got != want:
                ctx.fail({"history_kind": "rewriter-construction-failed", "map": m, "input": text},
                         "after a failed AliasRewriter construction the caller's parser / lexer "
                         "no longer behaves like a fresh one", expected=want, observed=got,
                         cls="rewriter", sig=["rw-bad"])
                break
        ctx.cls("rewriter-bad-map")


def run(ctx):
    contracts.install_parse()
    rng = ctx.rng("c20")
    corp = corpus(ctx.rng("corpus-shared-by-all-shards-%d" % 0) if False else
                  __import__("random").Random(ctx.seed * 31 + 5), 700)
    model = Model()
    run_histories(ctx, model, rng, corp)
    run_interleaved_tokens(ctx, model, rng, corp)
    run_nested(ctx, model, rng, corp)
    run_rewriter(ctx, model, rng, corp)
    run_poison_probe(ctx, model)
    run_children(ctx, rng, corp)
    if ctx.shard < ctx.pick(2, 6):
        run_threads(ctx, model, rng, corp)
    contracts.flush_counts(ctx)


def requirements(m):
    c, out = m["counters"], []
    for k, lo in (("history_calls", 1000), ("interleaved_streams", 100), ("nested_parses", 100),
                  ("child_processes", 6), ("thread_calls", 500), ("rewriter_constructions", 20),
                  ("abandoned_generators", 10)):
        if c.get(k, 0) < lo:
            out.append("too few %s: %d" % (k, c.get(k, 0)))
    for k in ("call:valid", "call:tok-error", "call:func-unknown", "call:func-count",
              "call:err-eof", "call:err-first"):
        if not m["classes"].get(k):
            out.append("history never contained " + k)
    if m["tier"] == "thorough" and m["notes"].get("distinct_handoff_points", 0) < 20:
        out.append("yield injection reached too few distinct points: %s"
                   % m["notes"].get("distinct_handoff_points", 0))
    return out


def replay(ctx, case):
    model = Model()
    if case.get("history_kind") in ("shared", "crossed", "abandon"):
        lx, ps = ODataLexer(), ODataParser()
        for i, text in enumerate(case["history"]):
            got = outcome(text, lx, ps)
            if got != model.get(text):
                ctx.fail(case, "outcome on reused instance differs", expected=model.get(text),
                         observed=got)
                return
    print("history replayed on one shared pair")
