"""C12 - a backend that cannot express a construct refuses it instead of mistranslating.

Per (node kind in operand position, backend): the call either returns a complete
translation or raises a library exception (NotImplementedError only for SQLAlchemy Core
on paths/lambdas).  Refuting events: it returns although M-fall saw a value node fall
through to generic_visit or M-part saw a nested visit return None; a leaf of the filter
is absent from the result; the exception is foreign (AttributeError, TypeError, KeyError,
IndexError, ...); an unknown field on a SQLAlchemy backend is not InvalidFieldException.
For the ORMs the statement is also executed.
"""
import re

from odata_query import ast, exceptions

from .. import drive, findings
from ..envs import django_env, sqla_env, visitors as shipped
from ..gen import terms as T, relational as R
from ..gen.printer import to_text
from ..mon import contracts
from ..ref import sql_lex, sql_parse, sql_value

RULE = ("matrix: node kind (11 literal kinds, typed identifier, unary minus, to-one path, "
        "any()/any(x:p)/all(x:p) lambdas, named-parameter call, every built-in function, "
        "list-typed arguments, unknown field) x operand position (comparison left/right, "
        "ordering right, arithmetic left/right, function argument, in-list element, and/or/not "
        "operand, lambda body, under unary minus) x 7 backends (standard / SQLite / Athena SQL, "
        "round-trip, Django, SQLAlchemy ORM, SQLAlchemy Core); ORM statements are executed. "
        "distinct = distinct (filter, backend); non-trivial = every case (one matrix cell)")
RULE += (" " + 'Also: unknown fields named like attributes of the resolver objects; a table column that is not an entity attribute; unary minus over float / duration / sums / calls / itself.')
RULE += (" " + 'Lambda kinds over a relation declared with related_name and a different related_query_name.')
RULE += (" " + 'Shared-AST lane: one parsed AST handed to all 7 backends in turn (4 orders x 10 filters), each compared with the translation of a fresh parse.')
RULE += (" " + 'Hybrid-property fields of the mapped class (Post.double_rating, Post.title_lc): 10 filters on the ORM backend.')
ASSUMPTIONS = ["well-typed w.r.t. the harness models T (scalar) and Post (relational)",
               "geo.* on Django excluded: GeoDjango cannot load here (no GDAL)",
               "database errors for SQL functions SQLite lacks (regexp) are environment "
               "specific and not judged"]
EXHAUSTIVE = "(node kind x position x backend) matrix"
SHARDS = {"quick": 10, "thorough": 16}
BUDGET_S = {"quick": 50, "thorough": 400}

BACKENDS = ["sql-standard", "sql-sqlite", "sql-athena", "roundtrip", "django", "sqlalchemy-orm",
            "sqlalchemy-core"]
OPTOKENS = (ast._BinOpToken, ast._Comparator, ast._BoolOpToken, ast._UnaryOpToken,
            ast._CollectionOperator)
FOREIGN_INTERNAL = (AttributeError, TypeError, KeyError, IndexError, ValueError, AssertionError,
                    RecursionError, NameError)

# --- node kinds: (name, type, term builder given a unique number) ---------------------------
I = T.ident


def kinds():
    out = []
    out.append(("lit-int", "int", lambda n: T.I(7000 + n)))
    out.append(("lit-float", "float", lambda n: T.lit("float", "%d.25" % (7000 + n))))
    out.append(("lit-bool", "bool", lambda n: T.lit("bool", "true")))
    out.append(("lit-null", "null", lambda n: T.lit("null", "null")))
    out.append(("lit-str", "str", lambda n: T.S("zq%dw" % n)))
    out.append(("lit-guid", "guid", lambda n: T.lit("guid", "6c0e37e3-e856-45ee-bd58-%012d" % n)))
    out.append(("lit-date", "date", lambda n: T.lit("date", "2021-03-%02d" % (1 + n % 28))))
    out.append(("lit-time", "time", lambda n: T.lit("time", "11:%02d:07" % (n % 60))))
    out.append(("lit-datetime", "datetime", lambda n: T.lit("datetime", "2021-03-04T05:%02d:07" % (n % 60))))
    out.append(("lit-duration", "duration", lambda n: T.lit("duration", "P%dD" % (3 + n % 20))))
    for i, d in enumerate(["P3DT3H", "-P1DT2H30M", "P1Y1M1DT1H1M1S", "-P2Y2M", "PT5M5S", "P1DT1H"]):
        out.append(("lit-duration-multi%d" % i, "duration", lambda n, d=d: T.lit("duration", d)))
    # accepted by the lexer, but no such calendar value: translation or a LIBRARY refusal
    out.append(("lit-date-nonexistent", "date", lambda n: T.lit("date", "2021-02-%02d" % (30 + n % 2))))
    out.append(("lit-date-zero-parts", "date", lambda n: T.lit("date", "2021-00-00")))
    out.append(("lit-datetime-nonexistent", "datetime", lambda n: T.lit("datetime", "2021-04-31T05:%02d:07" % (n % 60))))
    out.append(("lit-time-double-colon", "time", lambda n: T.lit("time", "11:%02d::07" % (n % 60))))
    out.append(("lit-geo", "geo", lambda n: T.lit("geo", "POINT(%d 2)" % n)))
    out.append(("ident-int", "int", lambda n: I("a")))
    out.append(("ident-str", "str", lambda n: I("s")))
    out.append(("ident-bool", "bool", lambda n: I("flag")))
    out.append(("ident-unknown", "int", lambda n: I("nosuchfield%d" % n)))
    # unknown fields whose names ARE attributes of the objects a backend resolves names on
    # (mapped class, column collection, Django model): still unknown fields
    for nm in SPECIAL_UNKNOWN:
        out.append(("ident-unknown:" + nm, "int", lambda n, nm=nm: I(nm)))
    # a COLUMN of the table that is not an attribute of the mapped entity: unknown to the ORM
    # backend (and to Django), a real field for Core and plain SQL
    out.append(("ident-orm-unknown:hidden_col", "int", lambda n: I("hidden_col")))
    out.append(("neg-ident", "int", lambda n: ("un", "neg", I("a"))))
    out.append(("neg-literal", "int", lambda n: ("un", "neg", T.I(7000 + n))))
    # unary minus over the other kinds it is defined for, and nested
    out.append(("neg-float", "float", lambda n: ("un", "neg", T.lit("float", "%d.5" % (7000 + n)))))
    out.append(("neg-duration", "duration", lambda n: ("un", "neg", T.lit("duration", "P%dD" % (3 + n % 20)))))
    out.append(("neg-duration-sum", "duration", lambda n: ("un", "neg", ("bin", "add", T.lit("duration", "P%dD" % (3 + n % 20)),
                                                                      T.lit("duration", "PT1H")))))
    out.append(("neg-neg", "int", lambda n: ("un", "neg", ("un", "neg", T.I(7000 + n)))))
    out.append(("neg-call", "int", lambda n: ("un", "neg", T.call("length", I("s")))))
    out.append(("arith", "int", lambda n: ("bin", "add", I("a"), T.I(7000 + n))))
    out.append(("list-int", ("list", "int"), lambda n: T.lst(T.I(7000 + n), T.I(8000 + n))))
    out.append(("namedparam-call", "int", lambda n: ("call", "my.func", (("np", I("k"), T.I(7000 + n)),))))
    out.append(("custom-call", "int", lambda n: T.call("my.func", I("a"), T.I(7000 + n))))
    return out


SPECIAL_UNKNOWN = ["metadata", "registry", "__init__", "__table__", "__mapper__", "mro", "__doc__",
                   "__class__", "_sa_class_manager", "__tablename__", "__dict__", "__module__",
                   "keys", "values", "items", "get", "update", "clear", "_collection", "columns",
                   "objects", "_meta", "DoesNotExist", "save", "__eq__", "__len__"]

REL_KINDS = [
    ("path-1", "str", lambda n: T.path("author", "name")),
    ("path-2", "str", lambda n: T.path("author", "country", "name")),
    ("path-int", "int", lambda n: T.path("author", "age")),
    ("path-unknown", "str", lambda n: T.path("author", "nosuchattr%d" % n)),
] + [("path-unknown:" + nm, "str", lambda n, nm=nm: T.path("author", nm))
     for nm in ("metadata", "__init__", "__table__", "mro", "keys", "objects", "_meta")] + [
    ("lambda-any-empty", "bool", lambda n: ("lam", I("comments"), "any", None, None)),
    ("lambda-any", "bool", lambda n: ("lam", I("comments"), "any", "c",
                                      ("cmp", "gt", T.path("c", "score"), T.I(7000 + n)))),
    ("lambda-all", "bool", lambda n: ("lam", I("tags"), "all", "t",
                                      ("cmp", "eq", T.path("t", "label"), T.S("zq%dw" % n)))),
    # a relation declared with related_name AND a different related_query_name
    ("lambda-any-query-name", "bool", lambda n: ("lam", I("labels"), "any", "t",
                                                 ("cmp", "eq", T.path("t", "label"), T.S("zq%dw" % n)))),
    ("lambda-all-query-name", "bool", lambda n: ("lam", I("labels"), "all", "t",
                                                 ("cmp", "gt", T.path("t", "weight"), T.I(7000 + n)))),
    ("lambda-nested-query-name", "bool", lambda n: ("lam", I("comments"), "any", "c",
                                                    ("lam", T.path("c", "post", "labels"), "any", "t",
                                                     ("cmp", "eq", T.path("t", "label"), T.S("zq%dw" % n))))),
    # one relationship in two roles: owner of a path AND compared as a value (its key), path first
    ("rel-path-then-compared-null", "bool", lambda n: ("bool", "or", ("cmp", "eq", T.path("author", "name"), T.S("zq%dw" % n)),
                                                       ("cmp", "eq", I("author"), T.lit("null", "null")))),
    ("rel-path-then-compared-ne-null", "bool", lambda n: ("bool", "and", T.call("startswith", T.path("author", "name"), T.S("zq%dw" % n)),
                                                          ("cmp", "ne", I("author"), T.lit("null", "null")))),
    ("rel-compared-then-path", "bool", lambda n: ("bool", "or", ("cmp", "eq", I("author"), T.lit("null", "null")),
                                                  ("cmp", "gt", T.path("author", "age"), T.I(7000 + n)))),
    ("rel-path2-then-compared", "bool", lambda n: ("bool", "or", ("cmp", "eq", T.path("author", "country", "name"), T.S("zq%dw" % n)),
                                                   ("cmp", "eq", T.path("author", "country"), T.lit("null", "null")))),
    ("lambda-path-owner", "bool", lambda n: ("lam", T.path("author", "posts"), "any", "p",
                                             ("cmp", "ge", T.path("p", "rating"), T.I(7000 + n)))),
]

FUNC_CALLS = {
    "concat": ("str", lambda n: T.call("concat", I("s"), T.S("zq%dw" % n))),
    "contains": ("bool", lambda n: T.call("contains", I("s"), T.S("zq%dw" % n))),
    "endswith": ("bool", lambda n: T.call("endswith", I("s"), T.S("zq%dw" % n))),
    "startswith": ("bool", lambda n: T.call("startswith", I("s"), T.S("zq%dw" % n))),
    "indexof": ("int", lambda n: T.call("indexof", I("s"), T.S("zq%dw" % n))),
    "length": ("int", lambda n: T.call("length", I("s"))),
    "substring": ("str", lambda n: T.call("substring", I("s"), T.I(1 + n % 3))),
    "substring3": ("str", lambda n: T.call("substring", I("s"), T.I(1), T.I(2 + n % 3))),
    "matchesPattern": ("bool", lambda n: T.call("matchesPattern", I("s"), T.S("zq%dw" % n))),
    "tolower": ("str", lambda n: T.call("tolower", I("s"))),
    "toupper": ("str", lambda n: T.call("toupper", I("s"))),
    "trim": ("str", lambda n: T.call("trim", I("s"))),
    "year": ("int", lambda n: T.call("year", I("d"))),
    "month": ("int", lambda n: T.call("month", I("d"))),
    "day": ("int", lambda n: T.call("day", I("d"))),
    "hour": ("int", lambda n: T.call("hour", I("d"))),
    "minute": ("int", lambda n: T.call("minute", I("d"))),
    "second": ("int", lambda n: T.call("second", I("d"))),
    "fractionalseconds": ("float", lambda n: T.call("fractionalseconds", I("d"))),
    "totalseconds": ("float", lambda n: T.call("totalseconds", T.lit("duration", "PT%dS" % (5 + n)))),
    "date": ("date", lambda n: T.call("date", I("d"))),
    "time": ("time", lambda n: T.call("time", I("d"))),
    "totaloffsetminutes": ("int", lambda n: T.call("totaloffsetminutes", I("d"))),
    "mindatetime": ("datetime", lambda n: T.call("mindatetime")),
    "maxdatetime": ("datetime", lambda n: T.call("maxdatetime")),
    "now": ("datetime", lambda n: T.call("now")),
    "round": ("float", lambda n: T.call("round", I("f"))),
    "floor": ("float", lambda n: T.call("floor", I("f"))),
    "ceiling": ("float", lambda n: T.call("ceiling", I("f"))),
    "geo.distance": ("float", lambda n: T.call("geo.distance", I("loc"), T.lit("geo", "POINT(%d 2)" % n))),
    "geo.length": ("float", lambda n: T.call("geo.length", I("loc"))),
    "geo.intersects": ("bool", lambda n: T.call("geo.intersects", I("loc"), T.lit("geo", "POINT(%d 2)" % n))),
    "hassubset": ("bool", lambda n: T.call("hassubset", T.lst(T.I(1), T.I(2)), T.lst(T.I(7000 + n)))),
    "hassubsequence": ("bool", lambda n: T.call("hassubsequence", T.lst(T.I(1), T.I(2)), T.lst(T.I(7000 + n)))),
    "length-list": ("int", lambda n: T.call("length", T.lst(T.I(7000 + n), T.I(2)))),
    "concat-list": (("list", "int"), lambda n: T.call("concat", T.lst(T.I(7000 + n)), T.lst(T.I(2), T.I(3)))),
    "substring-list": (("list", "int"), lambda n: T.call("substring", T.lst(T.I(7000 + n), T.I(2), T.I(3)), T.I(1))),
}

PEER = {"int": I("b"), "float": I("f"), "str": I("u"), "bool": I("flag"), "datetime": I("d"),
        "date": I("dd"), "guid": I("g"), "time": T.call("time", I("d")),
        "duration": T.lit("duration", "PT9M"), "null": I("c"), "geo": I("loc")}
REL_PEER = {"int": I("rating"), "str": I("title"), "bool": None}


def positions(typ, x, rel):
    """(position name, filter term) for a value x of type typ."""
    peer = (REL_PEER if rel else PEER).get(typ if not isinstance(typ, tuple) else "x")
    out = []
    if isinstance(typ, tuple):
        needle = I("rating") if rel else I("a")
        out.append(("in-list", ("cmp", "in", needle, x)))
        out.append(("func-arg", ("cmp", "eq", T.call("length", x), T.I(2))))
        return out
    if typ == "bool" and x[0] == "lit":
        return [("cmp-right", ("cmp", "eq", I("flag"), x)), ("cmp-left", ("cmp", "ne", x, I("flag")))]
    if typ == "bool":
        other = ("cmp", "gt", I("rating") if rel else I("a"), T.I(1))
        out.append(("alone", x))
        out.append(("and-left", ("bool", "and", x, other)))
        out.append(("or-right", ("bool", "or", other, x)))
        out.append(("not-operand", ("un", "not", x)))
        out.append(("cmp-left", ("cmp", "eq", x, T.lit("bool", "true"))))
        out.append(("cmp-right", ("cmp", "ne", T.lit("bool", "false"), x)))
        return out
    if typ == "null":
        out.append(("cmp-right", ("cmp", "eq", peer, x)))
        out.append(("cmp-left", ("cmp", "ne", x, peer)))
        out.append(("lt-right", ("cmp", "lt", peer, x)))
        out.append(("in-list", ("cmp", "in", peer, T.lst(x, T.I(1)))))
        out.append(("func-arg", T.call("contains", I("s"), x)))
        return out
    if peer is None:
        return out
    # next to a boolean constant that decides the operator on its own: the other operand is
    # still part of the filter (validated, translated or refused)
    atom = ("cmp", "eq", peer, x)
    for cname, cst, op in (("false-and", "false", "and"), ("true-or", "true", "or"),
                           ("true-and", "true", "and"), ("false-or", "false", "or")):
        out.append((cname + "-right", ("bool", op, T.lit("bool", cst), atom)))
        out.append((cname + "-left", ("bool", op, atom, T.lit("bool", cst))))
    out.append(("not-true-and", ("bool", "and", ("un", "not", T.lit("bool", "true")), atom)))
    out.append(("nested-false-and", ("bool", "or", ("cmp", "eq", I("rating") if rel else I("a"), T.I(1)),
                                     ("bool", "and", T.lit("bool", "false"), atom))))
    out.append(("cmp-right", ("cmp", "eq", peer, x)))
    out.append(("cmp-left", ("cmp", "ne", x, peer)))
    out.append(("lt-right", ("cmp", "lt", peer, x)))
    out.append(("in-list", ("cmp", "in", peer, T.lst(x, x))))
    if typ in ("int", "float"):
        out.append(("arith-left", ("cmp", "gt", ("bin", "mul", x, T.I(2)), peer)))
        out.append(("arith-right", ("cmp", "le", ("bin", "sub", peer, x), T.I(3))))
        out.append(("neg-operand", ("cmp", "lt", ("un", "neg", x), peer)))
        out.append(("func-arg", ("cmp", "eq", T.call("round", x), peer)))
    if typ == "str":
        out.append(("func-arg", T.call("contains", peer, x)))
        out.append(("func-arg-subject", T.call("startswith", x, T.S("zz"))))
        out.append(("func-arg-nested", ("cmp", "eq", T.call("length", T.call("tolower", x)), T.I(3))))
    if typ in ("datetime", "date"):
        out.append(("func-arg", ("cmp", "eq", T.call("year", x), T.I(2021))))
    if typ == "datetime":
        out.append(("arith-left", ("cmp", "gt", ("bin", "add", x, T.lit("duration", "P1D")), peer)))
    if typ == "duration":
        out = [("arith-right", ("cmp", "gt", ("bin", "add", I("d"), x), I("d"))),
               ("func-arg", ("cmp", "gt", T.call("totalseconds", x), T.I(1)))]
    if typ == "geo":
        out = [("func-arg", ("cmp", "lt", T.call("geo.distance", I("loc"), x), T.I(5)))]
    if typ in ("int", "str") and not any(n[0] == "id" for n in T.walk(x)):
        cpeer = T.path("c", "score") if typ == "int" else T.path("c", "text")
        out.append(("lambda-body", ("lam", I("comments"), "any", "c", ("cmp", "eq", cpeer, x))))
    return out


# --- leaf extraction ------------------------------------------------------------------------
def leaves_of(t):
    """Leaves that can be traced: unique identifiers and literals with unique content."""
    out = []
    for n in T.walk(t):
        if n[0] == "id" and not n[2]:
            out.append(("id", n[1]))
        elif n[0] == "attr":
            out.append(("id", n[2]))
        elif n[0] == "lit" and n[1] in ("int", "float", "str", "guid", "date", "time",
                                        "datetime", "duration"):
            out.append((n[1], n[2]))
    return out


def _marker(kind, val):
    if kind in ("int", "float"):
        return [val.lstrip("+-")]
    if kind == "datetime":
        return val.replace("Z", "").split("T")
    if kind == "duration":
        return re.findall(r"\d+(?:\.\d+)?", val)
    return [val]


def missing_in_text(t, text, lower_ids=False, lambda_vars=()):
    miss = []
    low = text.lower() if lower_ids else text
    for kind, val in leaves_of(t):
        if kind == "id":
            if val in lambda_vars:
                continue
            v = val.lower() if lower_ids else val
            if v not in low:
                miss.append(("id", val))
        else:
            for m in _marker(kind, val):
                if m.lower() not in text.lower():
                    miss.append((kind, val))
                    break
    return miss


def django_leaves(obj, out, depth=0):
    from django.db.models import F, Q, Value
    from django.db.models.expressions import BaseExpression
    from django.db.models.query import QuerySet
    if depth > 40:
        return
    if isinstance(obj, F):
        out.append(("id", obj.name))
        return
    if isinstance(obj, Value):
        out.append(("val", obj.value))
        return
    if isinstance(obj, Q):
        for c in obj.children:
            if isinstance(c, tuple):
                out.append(("id", c[0]))
                django_leaves(c[1], out, depth + 1)
            else:
                django_leaves(c, out, depth + 1)
        return
    if isinstance(obj, QuerySet):
        try:
            out.append(("sub", str(obj.query)))
        except Exception:
            out.append(("sub", "<subquery with outer reference>"))
        return
    if isinstance(obj, (list, tuple)):
        for i in obj:
            django_leaves(i, out, depth + 1)
        return
    if hasattr(obj, "lhs") and hasattr(obj, "rhs"):
        django_leaves(obj.lhs, out, depth + 1)
        django_leaves(obj.rhs, out, depth + 1)
        return
    if hasattr(obj, "query") and hasattr(obj.query, "where"):
        try:
            out.append(("sub", str(obj.query)))
        except Exception:
            out.append(("sub", "<subquery with outer reference>"))
        return
    if isinstance(obj, BaseExpression):
        for s in obj.get_source_expressions():
            django_leaves(s, out, depth + 1)
        return
    out.append(("val", obj))


def sqla_leaves(clause):
    from sqlalchemy.sql import visitors
    from sqlalchemy.sql.elements import BindParameter, ColumnClause
    out = []
    try:
        it = visitors.iterate(clause)
    except Exception:
        return out
    for el in it:
        if isinstance(el, BindParameter):
            out.append(("val", el.value))
        elif isinstance(el, ColumnClause) or hasattr(el, "key") and hasattr(el, "table"):
            out.append(("id", getattr(el, "key", None) or getattr(el, "name", None)))
    return out


def missing_in_objs(t, found, text_fallback, lambda_vars=()):
    ids = {str(v).split("__")[-1] for k, v in found if k == "id"} | \
          {p for k, v in found if k == "id" for p in str(v).split("__")}
    vals = [v for k, v in found if k == "val"]
    sval = " ".join(repr(v) for v in vals) + " " + " ".join(str(v) for v in vals) + " " + text_fallback
    miss = []
    for kind, val in leaves_of(t):
        if kind == "id":
            if val in lambda_vars:
                continue
            if val not in ids and val not in text_fallback and \
                    (val.rstrip("s") not in text_fallback or len(val) < 4):
                miss.append(("id", val))
        else:
            for m in _marker(kind, val):
                m2 = m.lstrip("0") or "0"
                if m.lower() not in sval.lower() and m2 not in sval and \
                        m.replace("-", "").lower() not in sval.lower():
                    miss.append((kind, val))
                    break
    return miss


# --- running one backend --------------------------------------------------------------------
def run_backend(backend, node, rel, root="Post"):
    """-> ("ok", result, trace) | ("exc", exception, trace)"""
    M = django_env.models()
    with contracts.tracing(want_parts=True) as tr:
        try:
            if backend == "django":
                from odata_query.django.django_q import AstToDjangoQVisitor
                model = getattr(M, root) if rel else M.T
                v = AstToDjangoQVisitor(model)
                q = v.visit(node)
                qs = model.objects.all()
                if v.queryset_annotations:
                    qs = qs.annotate(**v.queryset_annotations)
                qs = qs.filter(q)
                sql = str(qs.query)
                list(qs.values_list("id", flat=True)[:3])
                return ("ok", (q, sql, dict(v.queryset_annotations)), tr)
            if backend == "sqlalchemy-orm":
                import sqlalchemy as sa
                from odata_query.sqlalchemy.orm import AstToSqlAlchemyOrmVisitor
                model = getattr(sqla_env, root) if rel else sqla_env.T
                v = AstToSqlAlchemyOrmVisitor(model)
                clause = v.visit(node)
                q = sa.select(model.id)
                for j in v.join_relationships:
                    q = q.join(j, isouter=True)
                q = q.filter(clause)
                with sqla_env.session() as s:
                    s.execute(q.limit(3)).all()
                return ("ok", (clause, str(q)), tr)
            if backend == "sqlalchemy-core":
                import sqlalchemy as sa
                from odata_query.sqlalchemy.core import AstToSqlAlchemyCoreVisitor
                table = (getattr(sqla_env, root) if rel else sqla_env.T).__table__
                clause = AstToSqlAlchemyCoreVisitor(table).visit(node)
                q = sa.select(table.c.id).filter(clause)
                with sqla_env.engine().connect() as con:
                    con.execute(q.limit(3)).all()
                return ("ok", (clause, str(q)), tr)
            res = shipped.RUNNERS[backend](node)
            return ("ok", res, tr)
        except BaseException as e:
            if isinstance(e, (KeyboardInterrupt, SystemExit)):
                raise
            return ("exc", e, tr)


def judge(ctx, kname, pos, t, backend, rel, unknown_field, check_leaves=True, root="Post"):
    text = to_text(t)
    o = drive.parse_ast(text)
    if o[0] != "ok":
        ctx.count("source_rejected")
        return
    node = o[1]
    ctx.count("evaluations")
    ctx.seen([text, backend])
    cell = "%s|%s|%s" % (kname, pos, backend)
    ctx.cls("kind:" + kname)
    ctx.cls("backend:" + backend)
    ctx.cls("position:" + pos)
    case = {"kind": kname, "position": pos, "backend": backend, "filter": text}
    lamvars = {n[3] for n in T.walk(t) if n[0] == "lam" and n[3]}
    out = run_backend(backend, node, rel, root)
    keys = findings.refusal_triggers(kname, pos, backend, t)
    if out[0] == "exc":
        e = out[1]
        ename = type(e).__name__
        mod = type(e).__module__ or ""
        if isinstance(e, contracts.MonitorViolation):
            ctx.fail(case, "monitor fired: " + e.monitor, observed=str(e)[:300], keys=keys,
                     cls=cell, sig=["monitor", kname, backend])
            return
        if isinstance(e, exceptions.ODataException):
            ctx.cls("outcome:refused:" + ename)
            if unknown_field and backend.startswith("sqlalchemy") and \
                    not isinstance(e, exceptions.InvalidFieldException) and \
                    not (backend == "sqlalchemy-core" and rel):
                ctx.fail(case, "unknown field is not reported as InvalidFieldException",
                         observed=ename, keys=keys, cls=cell, sig=["invalid-field", backend])
            return
        if isinstance(e, NotImplementedError) and backend == "sqlalchemy-core" and rel:
            ctx.cls("outcome:core-not-implemented")
            return
        if backend == "django" and isinstance(e, ImportError) and "geo" in kname + text:
            ctx.cls("outcome:geodjango-unavailable")
            return
        if ename == "OperationalError" and ("no such function" in str(e)
                                            or "user-defined function raised" in str(e)):
            # the database lacks / rejects a function the backend legitimately emitted
            # (REGEXP with an invalid pattern, ...): environment, not judged
            ctx.cls("outcome:db-function-error")
            return
        if ename == "OperationalError" and "ambiguous column" in str(e):
            keys = keys + ["same-entity-via-two-paths@%s" % backend]
        if unknown_field and backend == "django" and ename == "FieldError":
            ctx.cls("outcome:django-field-error")   # Django's own unknown-field report
            return
        ctx.fail(case, "foreign exception instead of a library refusal: " + ename,
                 expected="complete translation or ODataException",
                 observed="%s.%s: %s" % (mod, ename, str(e)[:200]), keys=keys, cls=cell,
                 sig=["foreign", ename, kname if ename not in ("TypeError",) else "", backend])
        return
    res, tr = out[1], out[2]
    # returned: M-fall / M-part
    value_falls = [(v, n) for v, n in tr.falls
                   if not isinstance(getattr(ast, n, None), type) or
                   not issubclass(getattr(ast, n), OPTOKENS)]
    if value_falls:
        ctx.fail(case, "returned although a value node fell through to generic_visit",
                 observed=sorted(set(value_falls))[:5], keys=keys, cls=cell,
                 sig=["fall", value_falls[0][1], backend])
        return
    nones = [(v, type(n).__name__) for v, n, r in tr.events
             if r is None and not isinstance(n, OPTOKENS)]
    if nones:
        ctx.fail(case, "returned although a nested visit produced None",
                 observed=sorted(set(nones))[:5], keys=keys, cls=cell,
                 sig=["none", nones[0][1], backend])
        return
    ctx.cls("outcome:translated")
    if backend == "sqlalchemy-orm" and rel:
        # every to-one navigation step of the filter needs its own JOIN
        want = sum(len(v) for v in findings._to_one_targets(t, root.lower()).values())
        # ... except a hop that ENDS a path (author/home eq null): comparing the relationship
        # itself legitimately reads the key column of the previous table
        ends = set()
        for n in T.walk(t):
            if n[0] in ("id", "attr"):
                parts = R.path_parts(n)
                e, path = root.lower(), []
                for p_ in parts:
                    if p_ in R.TO_ONE.get(e, {}):
                        e = R.TO_ONE[e][p_]
                        path.append(p_)
                    else:
                        path = None
                        break
                if path and len(path) == len(parts):
                    ends.add(tuple(path))
        through = set()
        for n in T.walk(t):
            if n[0] in ("id", "attr"):
                parts = R.path_parts(n)
                e, path = root.lower(), []
                for k_, p_ in enumerate(parts):
                    if p_ in R.TO_ONE.get(e, {}):
                        e = R.TO_ONE[e][p_]
                        path.append(p_)
                        if k_ < len(parts) - 1:
                            through.add(tuple(path))
                    else:
                        break
        want -= len([x for x in ends if x not in through])
        got = len(re.findall(r"\bJOIN\b", res[1].upper()))
        ctx.count("join_counts_checked")
        if got < want:
            ctx.fail(dict(case, output=res[1]), "a navigation step of the filter has no JOIN in the "
                     "translation (part missing)", expected=want, observed=got, keys=keys, cls=cell,
                     sig=["join-missing", backend])
            return
    if not check_leaves:
        return
    # leaves
    if backend.startswith("sql-") or backend == "roundtrip":
        if not isinstance(res, str) or "None" in re.findall(r"\bNone\b", res):
            ctx.fail(case, "output contains a placeholder / is not text", observed=repr(res)[:300],
                     keys=keys, cls=cell, sig=["placeholder", kname, backend])
            return
        miss = missing_in_text(t, res, lower_ids=(backend == "sql-athena"), lambda_vars=())
        case["output"] = res
        durs = [n for n in T.walk(t) if n[0] == "lit" and n[1] == "duration"]
        if backend.startswith("sql-") and len(durs) == 1:
            # the interval expression in the SQL must be worth what the literal denotes
            try:
                tree, toks = sql_parse.parse(res)
                vals = [v for _, v in sql_value.maximal_interval_subtrees(tree, toks)]
            except Exception:
                vals = None
            want = sql_value.duration_value(durs[0][2])
            # a unary minus written in the FILTER above the literal belongs to the maximal
            # interval expression of the SQL as well
            negs = 0
            for n in T.walk(t):
                x = n
                while x[0] == "un" and x[1] == "neg":
                    x = x[2]
                    if x == durs[0]:
                        k, y = 0, n
                        while y[0] == "un" and y[1] == "neg":
                            k, y = k + 1, y[2]
                        negs = max(negs, k)
            if want is not None and negs % 2:
                want = tuple(-c for c in want)
            if vals is not None and want is not None:
                ctx.count("durations_evaluated")
                if len(vals) != 1 or vals[0] != want:
                    ctx.fail(case, "a component of the duration literal is missing / altered in the "
                             "translation", expected=str(want), observed=str(vals), keys=keys,
                             cls=cell, sig=["duration-value", backend])
                    return
    elif backend == "django":
        q, sql, ann = res
        found = []
        django_leaves(q, found)
        for a in ann.values():
            django_leaves(a, found)
        miss = missing_in_objs(t, found, sql, lamvars)
        case["output"] = sql
    else:
        clause, sql = res
        found = sqla_leaves(clause)
        miss = missing_in_objs(t, found, sql, lamvars)
        case["output"] = sql
    if miss:
        ctx.fail(case, "a leaf of the filter is absent from the translation",
                 expected="every field and literal represented", observed=miss[:5], keys=keys,
                 cls=cell, sig=["missing", miss[0][0], kname, backend])


def cells():
    n = 0
    for kname, typ, mk in kinds():
        for rel in (False,):
            for pos, _ in positions(typ, mk(0), rel):
                n += 1
                yield (kname, typ, mk, rel, pos, n)
    for kname, typ, mk in REL_KINDS:
        for pos, _ in positions(typ, mk(0), True):
            n += 1
            yield (kname, typ, mk, True, pos, n)
    for fname, (typ, mk) in FUNC_CALLS.items():
        for pos, _ in positions(typ, mk(0), False):
            n += 1
            yield ("call:" + fname, typ, mk, False, pos, n)

SHARED_FILTERS = [
    "comments/any(c: contains(c/text, 'zs1'))",
    "comments/any(c: c/text in ('zs2', 'zs3'))",
    "comments/all(c: 'zs4' in (c/text, 'zs5'))",
    "comments/any(c: startswith(tolower(c/text), 'zs6') and length(c/text) gt 7101)",
    "comments/any(c: concat(c/text, c/text) eq 'zs7')",
    "author/name in ('zs8', 'zs9') and comments/any(c: indexof(c/text, 'zs10') ge 7102)",
    "comments/any(c: c/author/name eq 'zs11' or endswith(c/author/name, 'zs12'))",
    "tags/all(t: substring(t/label, 1) ne 'zs13') and tags/any(t: t/weight in (7103, 7104))",
    "comments/any(c: c/replies/any(r: contains(r/text, c/text)))",
    "contains(title, 'zs14') and rating in (7105, 7106)",
]


def _rendering(backend, out):
    if out[0] == "exc":
        e = out[1]
        return "exc:%s:%s" % (type(e).__name__, str(e)[:200])
    res = out[1]
    if backend == "django":
        return "ok:" + str(res[1])
    if backend.startswith("sqlalchemy"):
        return "ok:" + str(res[1])
    return "ok:" + repr(res)


def shared_ast_lane(ctx, idx):
    """History: ONE parsed AST handed to every backend in turn (an application that applies a filter and then
    echoes or logs it). What each backend returns for the shared object must be what it returns for a fresh
    parse of the same text - a translation that depends on who saw the tree before has a part replaced."""
    for text in SHARED_FILTERS:
        for first in ("sqlalchemy-orm", "django", "roundtrip", "sql-sqlite"):
            idx += 1
            if not ctx.mine(idx):
                continue
            o = drive.parse_ast(text)
            if o[0] != "ok":
                ctx.count("source_rejected")
                continue
            shared = o[1]
            order = [first] + [b for b in BACKENDS if b != first]
            for k, backend in enumerate(order):
                fresh = drive.parse_ast(text)[1]
                want = _rendering(backend, run_backend(backend, fresh, True, "Post"))
                got_out = run_backend(backend, shared, True, "Post")
                got = _rendering(backend, got_out)
                ctx.count("shared_ast_compared")
                ctx.cls("shared-ast:" + backend)
                if got_out[0] == "exc" and isinstance(got_out[1], contracts.MonitorViolation):
                    ctx.fail({"kind": "shared-ast", "filter": text, "backend": backend, "before": order[:k]},
                             "monitor fired: " + got_out[1].monitor, observed=str(got_out[1])[:300],
                             cls="shared-ast", sig=["shared-ast-monitor", backend])
                    break
                if got != want:
                    ctx.fail({"kind": "shared-ast", "filter": text, "backend": backend, "before": order[:k]},
                             "the translation of an AST object that other backends translated before differs "
                             "from the translation of a fresh parse", expected=want[:400], observed=got[:400],
                             cls="shared-ast", sig=["shared-ast", backend])
                    break
    return idx


def run(ctx):
    contracts.install_parse()
    contracts.install_visit_trace()
    contracts.install_infer()
    shipped.setup()
    sqla_env.engine()
    idx = 0
    for kname, typ, mk, rel, pos, n in cells():
        x = mk(n)
        t = dict(positions(typ, x, rel))[pos]
        rel = rel or pos == "lambda-body"
        for backend in BACKENDS:
            idx += 1
            if not ctx.mine(idx):
                continue
            # next to a deciding constant an engine layer may legitimately fold the operand away
            # AFTER it was translated: only the outcome (refusal / exception) is judged there
            folded = pos.split("-right")[0].split("-left")[0] in ("false-and", "true-or", "true-and", "false-or") \
                or pos in ("not-true-and", "nested-false-and")
            judge(ctx, kname, pos, t, backend, rel,
                  unknown_field=kname.split(":")[0] in ("ident-unknown", "path-unknown") or
                  (kname.startswith("ident-orm-unknown") and backend in ("sqlalchemy-orm", "django")),
                  check_leaves=not folded)
            if idx % 701 == 0:
                ctx.sample({"kind": kname, "position": pos, "backend": backend,
                            "filter": to_text(t)})
    two_routes = [
        ("two-routes-and", "author/name eq 'zq1w' and post/author/age gt 7001"),
        ("two-routes-or", "post/author/name eq 'zq2w' or author/age lt 7002"),
        ("two-routes-deep", "post/author/country/code eq 7003 and author/country/name eq 'zq3w'"),
        ("one-route-deep", "post/author/country/name eq 'zq4w' and post/title ne 'zq5w'"),
        ("same-route-twice", "author/name eq 'zq6w' or author/age gt 7006"),
    ]
    for kname, text in two_routes:
        t = drive.parse_term(text)[1]
        for backend in ("django", "sqlalchemy-orm"):
            idx += 1
            if ctx.mine(idx):
                judge(ctx, kname, "comment-root", t, backend, True, False, root="Comment")
    idx = shared_ast_lane(ctx, idx)
    # fields that are extension descriptors of the mapped class (hybrid properties): legitimate fields on the ORM
    for text in ("double_rating gt 7201", "7202 lt double_rating", "contains(title_lc, 'zh1')", "title_lc eq 'zh2'",
                 "double_rating in (7203, 7204)", "tolower(title_lc) ne 'zh3' and double_rating add 1 ge 7205",
                 "comments/any(c: c/post/double_rating gt 7206)", "startswith(title_lc, 'zh4') or endswith(title_lc, 'zh5')",
                 "length(title_lc) gt 7207", "not (double_rating eq null)"):
        idx += 1
        if ctx.mine(idx):
            ctx.cls("orm-extension-field")
            judge(ctx, "ident-hybrid", "orm-root", drive.parse_term(text)[1], "sqlalchemy-orm", True, False,
                  check_leaves=False, root="Post")
    ctx.count("exhaustive_complete")
    # thorough: random well-typed compositions (every function, nested) through all backends;
    # judged on fall-through / None parts / foreign exceptions only (no leaf matching)
    if ctx.thorough():
        from ..gen import scalar, relational as R
        rng = ctx.rng("c12-random")
        p = scalar.Profile()
        p.columns = dict(scalar.SCHEMA, g="guid", dd="date")
        p.types = {"int", "float", "str", "bool", "datetime", "date", "guid"}
        p.funcs = set(scalar.FUNCS) - {"geo.distance", "geo.length", "geo.intersects", "hassubset",
                                       "hassubsequence"}
        p.null_left = True
        for i in range(4000):
            if ctx.out_of_time():
                break
            if i % 4 == 3:
                t = R.gen_filter(rng, "post", rng.randint(0, 2))
                rel = True
            else:
                t = scalar.gen_bool(rng, p, rng.randint(1, 4))
                rel = False
            if T.size(t) > 60:
                continue
            for backend in BACKENDS:
                judge(ctx, "random-typed" if not rel else "random-relational", "random", t, backend,
                      rel, unknown_field=False, check_leaves=False)
    contracts.flush_counts(ctx)


def requirements(m):
    out = []
    c = m["counters"]
    if c.get("M-part", 0) < 1000 or c.get("M-fall", 0) == 0 and False:
        out.append("M-part hook under-evaluated")
    for b in BACKENDS:
        if not m["classes"].get("backend:" + b):
            out.append("backend never exercised: " + b)
    for k in ("outcome:translated",):
        if not m["classes"].get(k):
            out.append("no complete translation observed")
    if not any(k.startswith("outcome:refused:") for k in m["classes"]):
        out.append("no refusal observed")
    return out


def replay(ctx, case):
    contracts.install_visit_trace()
    shipped.setup()
    sqla_env.engine()
    if case["kind"] == "shared-ast":
        shared = drive.parse_ast(case["filter"])[1]
        for backend in list(case.get("before", [])) + [case["backend"]]:
            want = _rendering(backend, run_backend(backend, drive.parse_ast(case["filter"])[1], True, "Post"))
            out = run_backend(backend, shared, True, "Post")
            got = _rendering(backend, out)
            if out[0] == "exc" and isinstance(out[1], contracts.MonitorViolation):
                ctx.fail(case, "monitor fired: " + out[1].monitor, observed=str(out[1])[:300])
                return
            print(backend, "same" if got == want else "DIFFERS\n  fresh:  %s\n  shared: %s" % (want[:300], got[:300]))
            if got != want:
                ctx.fail(case, "shared AST translates differently from a fresh parse", expected=want[:400], observed=got[:400])
        return
    t = drive.parse_term(case["filter"])[1]
    rel = any(n[0] in ("attr", "lam") for n in T.walk(t)) and case["kind"] in [k[0] for k in REL_KINDS]
    judge(ctx, case["kind"], case["position"], t, case["backend"], rel,
          case["kind"].split(":")[0] in ("ident-unknown", "path-unknown") or
          (case["kind"].startswith("ident-orm-unknown") and case["backend"] in ("sqlalchemy-orm", "django")))
