"""C18 - type inference never reports a wrong type.

M-infer contract on typing.infer_type (result None or a _Literal subclass; own class for
literals) plus direct calls: for every sub-node of a well-typed term infer_type is None
or the class of the term's static type; typecheck never rejects a well-typed call; a
literal argument of a kind outside the allowed set is rejected with
ArgumentTypeException (directly and through the Django / SQLAlchemy string functions).
"""
import dataclasses

from odata_query import ast, exceptions, typing as otyping

from .. import drive
from ..gen import scalar, terms as T
from ..gen.printer import to_text
from ..mon import contracts
from ..ref.decode import decode
from ..ref.types import static_type, class_name

RULE = ("typed generator (static type known by construction) over every built-in function "
        "with arguments of every admissible kind (literals, fields, nested calls, list "
        "literals for concat/substring/length), nested to depth 3, all sub-nodes checked; "
        "negative half: each position of contains/startswith/endswith with each of the 11 "
        "literal kinds + list, directly on typecheck and through the Django and SQLAlchemy "
        "visitors. distinct = distinct (expression text); non-trivial = contains a call")
RULE += (" " + "Also: arithmetic over points in time and durations (6 x 6 operand kinds x 4 operators) against the specification's result types.")
ASSUMPTIONS = ["reference return types in vpmon/ref/functable.py (round/floor/ceiling of a "
               "Double is a Double)"]
SHARDS = {"quick": 10, "thorough": 16}
BUDGET_S = {"quick": 40, "thorough": 400}

SCHEMA = dict(scalar.SCHEMA, g="guid", dd="date", tm="time", dur="duration", loc="geo")
ALL_TYPES = ["int", "float", "str", "bool", "datetime", "date", "time", "guid", "duration", "geo"]


def pair_nodes(node, term, out):
    """Zip library AST nodes with decoded sub-terms (same shape by construction)."""
    out.append((node, term))
    k = term[0]
    if k == "attr":
        pair_nodes(node.owner, term[1], out)
    elif k == "list":
        for n, t in zip(node.val, term[1]):
            pair_nodes(n, t, out)
    elif k in ("bin", "cmp", "bool"):
        pair_nodes(node.left, term[2], out)
        pair_nodes(node.right, term[3], out)
    elif k == "un":
        pair_nodes(node.operand, term[2], out)
    elif k == "call":
        for n, t in zip(node.args, term[2]):
            pair_nodes(n, t, out)


def judge(ctx, t, cls):
    text = to_text(t)
    o = drive.parse_ast(text)
    if o[0] != "ok":
        ctx.count("source_rejected")
        return
    node = o[1]
    term = decode(node)
    ctx.count("evaluations")
    if any(n[0] == "call" for n in T.walk(term)):
        ctx.seen(text)
    pairs = []
    pair_nodes(node, term, pairs)
    for n, sub in pairs:
        want = class_name(static_type(sub, SCHEMA))
        try:
            got = otyping.infer_type(n)
        except contracts.MonitorViolation as e:
            ctx.fail({"text": text, "sub": to_text(sub)}, "M-infer contract broken",
                     observed=str(e)[:300], cls=cls, sig=["minfer"])
            return
        except Exception as e:
            ctx.fail({"text": text, "sub": to_text(sub)}, "infer_type raises on a well-typed term",
                     observed=repr(e)[:200], cls=cls, sig=["raise", type(e).__name__])
            return
        ctx.count("subnodes_checked")
        gname = got.__name__ if got is not None else None
        if gname is None:
            ctx.count("inferred_unknown")
            continue
        ctx.cls("inferred:" + gname)
        if want is None:
            # the reference does not pin a type here (e.g. a field of unknown schema)
            ctx.count("reference_unpinned")
            continue
        if gname != want:
            ctx.fail({"text": text, "sub": to_text(sub)}, "inferred type is wrong",
                     expected=want, observed=gname, cls=cls,
                     sig=["wrong", sub[1] if sub[0] == "call" else sub[0], want, gname])
            return
        # consequence: a type check against the actual type never rejects
        try:
            otyping.typecheck(n, getattr(ast, want), "x")
            otyping.typecheck(n, (ast.Identifier, getattr(ast, want)), "x")
        except exceptions.ArgumentTypeException as e:
            ctx.fail({"text": text, "sub": to_text(sub)}, "typecheck rejects a well-typed node",
                     expected=want, observed=str(e), cls=cls, sig=["tc-reject", want])
            return
    for n in T.walk(term):
        if n[0] == "call":
            ctx.cls("call:" + n[1])


def negative(ctx):
    """typecheck must reject literals of a kind outside the allowed set."""
    from ..envs import visitors as shipped
    shipped.setup()
    lits = {k: T.lit(k, scalar.LITS[k][0]) for k in ALL_TYPES if k != "str"}
    lits["str"] = T.S("ab")
    lits["null"] = T.lit("null", "null")
    lits["list"] = T.lst(T.I(1), T.I(2))
    from odata_query.django.django_q import AstToDjangoQVisitor
    from odata_query.sqlalchemy.orm import AstToSqlAlchemyOrmVisitor
    from odata_query.sqlalchemy.core import AstToSqlAlchemyCoreVisitor
    from ..envs import django_env, sqla_env
    M = django_env.models()
    backends = {
        "django": lambda n: AstToDjangoQVisitor(M.T).visit(n),
        "sqla-orm": lambda n: AstToSqlAlchemyOrmVisitor(sqla_env.T).visit(n),
        "sqla-core": lambda n: AstToSqlAlchemyCoreVisitor(sqla_env.T.__table__).visit(n),
    }
    for kind, lt in lits.items():
        node = drive.parse_ast(to_text(lt))[1]
        for allowed_names in (("String",), ("Identifier", "String"), ("Integer", "Float"),
                              ("Boolean",), ("DateTime", "Date"), ("List",)):
            allowed = tuple(getattr(ast, a) for a in allowed_names)
            ctx.count("evaluations")
            ctx.count("negative_typechecks")
            actual = type(node).__name__
            should_reject = actual not in allowed_names
            for form in (allowed, allowed[0] if len(allowed) == 1 else allowed):
                try:
                    otyping.typecheck(node, form, "arg")
                    rejected = False
                except exceptions.ArgumentTypeException:
                    rejected = True
                if rejected != should_reject:
                    ctx.fail({"literal": to_text(lt), "allowed": allowed_names},
                             "typecheck decision wrong for a literal argument",
                             expected=should_reject, observed=rejected, cls="negative",
                             sig=["neg", kind, allowed_names])
        for fn in ("contains", "startswith", "endswith"):
            for pos in (0, 1):
                args = [T.ident("s"), T.S("x")]
                args[pos] = lt
                callt = ("call", fn, tuple(args))
                node2 = drive.parse_ast(to_text(callt))[1]
                for bname, run_b in backends.items():
                    ctx.count("evaluations")
                    ctx.count("negative_backend_calls")
                    ctx.seen([bname, fn, pos, kind])
                    should_reject = kind != "str"
                    try:
                        run_b(node2)
                        outcome = "accepted"
                    except exceptions.ArgumentTypeException:
                        outcome = "rejected"
                    except Exception as e:
                        outcome = "other:" + type(e).__name__
                    if should_reject and outcome != "rejected":
                        ctx.fail({"text": to_text(callt), "backend": bname},
                                 "literal of a kind outside the allowed set is not rejected "
                                 "with ArgumentTypeException", expected="rejected",
                                 observed=outcome, cls="negative", sig=["negb", bname, kind, pos])
                    if not should_reject and outcome != "accepted":
                        ctx.fail({"text": to_text(callt), "backend": bname},
                                 "well-typed string function call rejected",
                                 expected="accepted", observed=outcome, cls="negative",
                                 sig=["negb-ok", bname])


def shipped_visitors_lane(ctx):
    """The shipped translators ask for types themselves (with whatever arguments their code
    passes): string / list operands built from fields, literals, concat, substring, tolower,
    to depth 2, under length(..) and substring(.., 1), translated by the three SQL dialects and
    both SQLAlchemy visitors with M-infer comparing EVERY answer with the reference type."""
    import itertools
    from odata_query.sql import AstToSqlVisitor
    from odata_query.sql.sqlite import AstToSqliteSqlVisitor
    from odata_query.sql.athena import AstToAthenaSqlVisitor
    contracts.INFER_SCHEMA = dict(SCHEMA)
    # (expression, class): str / list / unk(nown field: fits either); only WELL-TYPED combinations
    base = [(T.ident("s"), "str"), (T.S("x"), "str"), (T.call("tolower", T.ident("s")), "str"),
            (T.lst(T.S("a"), T.S("b")), "list"), (T.lst(T.I(1)), "list"),
            (T.ident("tags"), "unk"), (T.path("rel", "tags"), "unk")]

    def cat(x, y):
        (ex, cx), (ey, cy) = x, y
        if cx != cy and "unk" not in (cx, cy):
            return None
        return (T.call("concat", ex, ey), cx if cx != "unk" else cy)
    level1 = list(base)
    for x, y in itertools.product(base, repeat=2):
        c = cat(x, y)
        if c:
            level1.append(c)
    for ex, cx in base:
        level1.append((T.call("substring", ex, T.I(1)), cx))
    level2 = list(level1)
    for x in level1[len(base):]:
        for y in base:
            for c in (cat(x, y), cat(y, x)):
                if c:
                    level2.append(c)
        level2.append((T.call("substring", x[0], T.I(1)), x[1]))
    level2 = [e for e, _ in level2]
    visitors = [("sql", lambda: AstToSqlVisitor()), ("sqlite", lambda: AstToSqliteSqlVisitor()),
                ("athena", lambda: AstToAthenaSqlVisitor())]
    j = 0
    for e in level2:
        for outer in (("cmp", "eq", T.call("length", e), T.I(2)), ("cmp", "eq", T.call("length", T.call("substring", e, T.I(1))), T.I(2)),
                      ("cmp", "eq", T.call("indexof", e, T.S("a")), T.I(1)), T.call("contains", e, T.S("a"))):
            j += 1
            if not ctx.mine(j):
                continue
            text = to_text(outer)
            o = drive.parse_ast(text)
            if o[0] != "ok":
                ctx.count("source_rejected")
                continue
            for vname, mk in visitors:
                ctx.count("evaluations")
                ctx.count("shipped_visitor_translations")
                ctx.cls("shipped-visitor:" + vname)
                try:
                    mk().visit(o[1])
                except contracts.MonitorViolation as ex:
                    ctx.fail({"text": text, "visitor": vname}, "a shipped translator was told a wrong type (M-infer)",
                             observed=str(ex)[:300], cls="shipped-visitors", sig=["minfer-shipped", vname])
                except Exception:
                    ctx.count("shipped_visitor_refused")
    contracts.INFER_SCHEMA = None


def run(ctx):
    contracts.install_parse()
    contracts.install_infer()
    rng = ctx.rng("c18")
    p = scalar.Profile(list_funcs=True, null_left=False)
    p.columns = dict(SCHEMA)
    p.types = set(ALL_TYPES) - {"geo"}
    fnames = sorted(scalar.FUNCS)
    n = ctx.pick(2500, 50000)
    for i in range(n):
        if ctx.out_of_time():
            break
        # cycle through every function so none is starved
        fname = fnames[i % len(fnames)]
        sigs = scalar.FUNCS[fname] + (scalar.LIST_FUNCS.get(fname, []) if i % 3 == 0 else [])
        args, ret = sigs[(i // len(fnames)) % len(sigs)]
        d = rng.randint(0, 3)
        callt = ("call", fname, tuple(scalar.gen_arg(rng, p, fname, j, a, d)
                                      for j, a in enumerate(args)))
        ctxform = i % 4
        if ctxform == 0:
            t = callt
        elif ctxform == 1 and ret not in ("bool",) and not isinstance(ret, tuple):
            other = scalar.gen(rng, p, ret, 1)
            t = ("cmp", rng.choice(["eq", "ne", "lt", "ge"]), callt, other)
        elif ctxform == 2:
            t = ("bool", "and", scalar.gen_bool(rng, p, 2),
                 callt if ret == "bool" else ("cmp", "eq", callt, callt))
        else:
            t = scalar.gen_bool(rng, p, 3)
        judge(ctx, t, "typed")
        if i % 500 == 0:
            ctx.sample({"text": to_text(t)[:200], "type": static_type(t, SCHEMA)})
    # arithmetic over points in time and durations (and unary minus): every sub-node's
    # inferred type is None or the type the specification gives the operator
    temporal = {
        "datetime": [T.lit("datetime", "2021-03-05T10:00:00Z"), T.call("now"), T.call("mindatetime"), T.ident("d")],
        "date": [T.lit("date", "2021-03-05"), T.call("date", T.ident("d")), T.ident("dd")],
        "duration": [T.lit("duration", "P1D"), T.lit("duration", "-PT2H"), T.ident("dur")],
        "int": [T.I(2), T.call("year", T.ident("d")), T.ident("a")],
        "float": [T.lit("float", "1.5"), T.call("round", T.ident("f")), T.ident("f")],
        "time": [T.lit("time", "10:00:00"), T.call("time", T.ident("d"))],
    }
    j = 0
    for op in ("add", "sub", "mul", "div"):
        for lt in temporal:
            for rt in temporal:
                from ..ref.types import arith_type
                if arith_type(op, lt, rt) is None:
                    continue
                for l in temporal[lt]:
                    for r in temporal[rt]:
                        j += 1
                        if not ctx.mine(j):
                            continue
                        e = ("bin", op, l, r)
                        ctx.cls("temporal-arith:%s:%s:%s" % (op, lt, rt))
                        judge(ctx, ("cmp", "eq", e, e), "temporal-arith")
                        judge(ctx, ("cmp", "gt", ("bin", "add", e, T.lit("duration", "PT1H")) if
                                    arith_type("add", arith_type(op, lt, rt), "duration") else ("un", "neg", e)
                                    if arith_type(op, lt, rt) in ("int", "float", "duration") else e, e),
                              "temporal-arith")
    shipped_visitors_lane(ctx)
    if ctx.shard == 0:
        negative(ctx)
    contracts.flush_counts(ctx)


def requirements(m):
    out = []
    if not m["counters"].get("M-infer"):
        out.append("M-infer contract never evaluated")
    missing = [f for f in scalar.FUNCS if not m["classes"].get("call:" + f)]
    if missing:
        out.append("built-ins never exercised: %s" % missing)
    if not m["counters"].get("negative_backend_calls"):
        out.append("negative half never ran")
    return out


def replay(ctx, case):
    if "text" in case:
        t = drive.parse_term(case["text"])
        if t[0] == "ok":
            judge(ctx, t[1], "replay")
