"""Trigger predicates of known findings.

A finding is keyed by *mechanism*: a predicate on the input that says "this input
exercises the defective mechanism".  A failing case is accounted to a listed finding
only when its input satisfies the predicate (and the check passes the keys that match
the failure class); everything else is a VIOLATION.  Keys that are not listed in
KNOWN_FINDINGS.txt (e.g. because the defect was fixed) suppress nothing.
"""
import re

from .gen import terms as T

_KW_PREFIX = re.compile(r"^(true|false|null|any|all)", re.I)


def _names(t):
    """All identifier-like spellings of a term: identifiers, path segments, lambda
    variables, named-parameter names, function names (last dotted part excluded)."""
    for n in T.walk(t):
        k = n[0]
        if k == "id":
            yield n[1]
            for p in n[2]:
                yield p
        elif k == "attr":
            yield n[2]
        elif k == "lam" and n[3]:
            yield n[3]
        elif k == "call":
            for p in n[1].split("."):
                yield p


def path_len(t):
    n = 1
    while t[0] == "attr":
        n += 1
        t = t[1]
    return n


def path_root(t):
    while t[0] == "attr":
        t = t[1]
    return t


def parse_triggers(t, text=None):
    keys = []
    if any(_KW_PREFIX.match(nm) for nm in _names(t)):
        keys.append("kw-prefix-identifier")
    for n in T.walk(t):
        if n[0] == "call" and len(n[2]) >= 3 and n[2][0][0] == "np":
            keys.append("named-params-3plus")
        if n[0] == "lam" and path_len(n[1]) >= 3:
            keys.append("lambda-owner-deep")
    return keys


def text_triggers(text):
    """Triggers that can be decided on raw text (C10/C20 inputs are arbitrary strings)."""
    keys = []
    return keys


def roundtrip_triggers(t):
    keys = list(parse_triggers(t))
    for n in T.walk(t):
        if n[0] == "lit" and n[1] == "str" and "'" in n[2]:
            keys.append("roundtrip-string-quote")
        if n[0] == "list" and len(n[1]) == 1:
            keys.append("roundtrip-singleton-list")
        if n[0] == "lit" and n[1] == "geo":
            keys.append("roundtrip-geography")
        if n[0] == "np":
            keys.append("roundtrip-namedparam")
        if n[0] in ("bin", "cmp", "bool") and n[1] != "in":
            r = n[3]
            if r[0] in ("bin", "cmp", "bool") and T.level(r) == T.level(n):
                keys.append("roundtrip-right-nested-equal-precedence")
    return keys


def rewrite_triggers(t, mapping):
    """AliasRewriter findings: keys that coincide with a function name / named-parameter
    name / lambda variable (or a path rooted at one) used in the term."""
    keys = list(parse_triggers(t))
    knames = set()
    for k in mapping:
        r = k
        while r[0] == "attr":
            r = r[1]
        knames.add((r[1], k[0] == "attr"))
    plain = {n for n, is_path in knames if not is_path}
    roots = {n for n, _ in knames}
    for n in T.walk(t):
        if n[0] == "call" and n[1].split(".")[-1] in plain:
            keys.append("alias-rewrites-function-name")
        if n[0] == "np" and n[1][1] in plain:
            keys.append("alias-rewrites-named-param-name")
        if n[0] == "lam" and n[3] and n[3] in roots:
            keys.append("alias-rewrites-lambda-variable")
    return keys


def sql_injection_triggers(tname, like_pos, payload):
    """LIKE pattern built from the raw literal: a quote in the pattern operand."""
    keys = []
    if like_pos is True and "'" in payload:
        keys.append("sql-like-pattern-quote-injection")
    return keys


def sql_value_triggers(tname, like_pos, payload):
    keys = []
    if like_pos is True and any(c in payload for c in "%_"):
        keys.append("sql-like-pattern-wildcards-not-escaped")
    if like_pos is True and "'" in payload:
        keys.append("sql-like-pattern-quote-injection")
    return keys


def sql_structure_triggers(t, dialect):
    """Known structural defects of the raw SQL dialects (C09/C01), by mechanism."""
    keys = []
    for n in T.walk(t):
        if n[0] == "call" and n[1] in ("floor", "ceiling") and dialect == "standard":
            keys.append("sql-standard-floor-ceiling-template")
    return keys


def _has_null_left(t):
    return any(n[0] == "cmp" and n[2] == ("lit", "null", "null") for n in T.walk(t))


def sqlite_semantic_triggers(t, flags, prob):
    """C01: mechanisms of the raw SQLite dialect (flags come from the reference evaluation)."""
    keys = []
    if "like-literal-pattern-wildcard" in flags:
        keys.append("sql-like-pattern-wildcards-not-escaped")
    if "like-nonliteral-pattern-wildcard" in flags:
        keys.append("sql-like-column-pattern-not-escaped")
    if "round-negative" in flags:
        keys.append("sqlite-round-negative")
    if _has_null_left(t):
        keys.append("null-literal-on-the-left")
    return keys


def django_semantic_triggers(t, flags, prob):
    keys = []
    if _has_null_left(t):
        keys.append("null-literal-on-the-left")
    for n in T.walk(t):
        # Django's Lookup.process_rhs only parenthesises a right-hand lookup whose SQL does
        # not already start with "(": a LIKE lookup on a Concat / arithmetic subject does
        if n[0] == "cmp" and n[1] in ("eq", "ne"):
            r = n[3]
            if r[0] == "call" and r[1] in ("contains", "startswith", "endswith") and \
                    r[2][0][0] in ("bin",) + (("call",) if r[2][0][0] == "call" and r[2][0][1] == "concat" else ()):
                keys.append("django-rhs-lookup-not-parenthesised")
    return keys


def sqla_semantic_triggers(t, flags, prob):
    keys = []
    if "like-literal-pattern-wildcard" in flags or "like-nonliteral-pattern-wildcard" in flags:
        keys.append("sqla-like-wildcards-not-escaped")
    if "int-div-inexact" in flags:
        keys.append("sqla-div-is-true-division")
    for n in T.walk(t):
        if n[0] == "call" and n[1] in ("date", "time"):
            keys.append("sqla-date-time-cast-on-sqlite")
    return keys


def sqla_case_triggers(variant_text):
    import re
    keys = []
    if re.search(r"\b(T[Rr][Uu][Ee]|t[Rr][Uu][Ee]|tr[Uu][Ee]|tru[E])\b", variant_text) and \
            re.search(r"(?i)\btrue\b", variant_text) and not re.search(r"\btrue\b", variant_text):
        keys.append("sqla-boolean-literal-case")
    return keys


def refusal_triggers(kname, pos, backend, t):
    """C12 findings are matrix cells: (node kind, backend family)."""
    fam = "sql" if backend.startswith("sql-") else backend
    keys = ["cell:%s@%s" % (kname, fam), "cell:%s|%s@%s" % (kname, pos, fam)]
    if any(n[0] == "call" and any(a[0] == "list" for a in n[2]) for n in T.walk(t)):
        keys.append("list-argument@%s" % fam)
    return keys


def _to_one_targets(t, root):
    """{target entity: set of distinct to-one relationship paths reaching it} at root level."""
    from .gen import relational as R
    out = {}

    def walk(n, bound):
        if n[0] in ("id", "attr"):
            parts = R.path_parts(n)
            if parts[0] in bound:
                return
            e, path = root, []
            for p in parts:
                if p in R.TO_ONE.get(e, {}):
                    e = R.TO_ONE[e][p]
                    path.append(p)
                    out.setdefault(e, set()).add(tuple(path))
                else:
                    break
            return
        if n[0] == "lam":
            walk(n[1], bound)
            return
        for c in T.children(n):
            walk(c, bound)
    walk(t, frozenset())
    return out


def relational_triggers(t, backend, flags, prob, root="post", detail=None):
    keys = []
    # the listed finding is an *execution error* (ambiguous column); wrong rows for such a
    # filter are a different failure and stay a violation
    if backend == "sqlalchemy" and any(len(v) > 1 for v in _to_one_targets(t, root).values()) \
            and str(prob).startswith("backend-raises") and "ambiguous column" in str(detail):
        keys.append("sqla-same-entity-via-two-paths")
    has_all = any(n[0] == "lam" and n[2] == "all" for n in T.walk(t))
    rels = {"author", "country", "post", "region"}
    to_one = any((n[0] == "attr" and n[1][0] == "id" and n[1][1] in rels) or
                 (n[0] == "attr" and n[1][0] == "attr" and n[1][2] in rels) or
                 (n[0] == "cmp" and n[2][0] == "id" and n[2][1] in rels)
                 for n in T.walk(t))
    if backend == "django" and has_all:
        keys.append("django-all-lambda-not-negated")
    if backend == "sqlalchemy" and to_one:
        keys.append("sqla-inner-join-drops-null-fk-parents")
    if "like-wildcard" in flags and backend == "sqlalchemy":
        keys.append("sqla-like-wildcards-not-escaped")
    return keys


def binding_triggers(t, backend):
    return []


def shorthand_triggers(kind, bname, t):
    return ["base:%s:%s" % (kind, bname)]


def case_triggers(variant_text, backend):
    import re
    keys = []
    if re.search(r"\d{4}-\d\d-\d\dt", variant_text) or re.search(r"\d\dz", variant_text):
        keys.append("datetime-lowercase-t-z")
    return keys
