"""Greedy term shrinker (delta debugging on the neutral term language)."""
from .gen import terms as T

_LEAVES = [("id", "a", ()), ("lit", "int", "1")]


def _candidates(t):
    """Smaller variants of t (one step)."""
    k = t[0]
    for c in T.children(t):
        if c[0] not in ("np",):
            yield c
    if k not in ("id", "lit"):
        for leaf in _LEAVES:
            yield leaf
    if k == "list" and len(t[1]) > 1:
        for i in range(len(t[1])):
            yield ("list", t[1][:i] + t[1][i + 1:])
    if k == "call" and len(t[2]) > 0:
        for i in range(len(t[2])):
            yield ("call", t[1], t[2][:i] + t[2][i + 1:])
    if k == "lit" and t[1] == "str" and len(t[2]) > 1:
        yield ("lit", "str", t[2][: len(t[2]) // 2])
        yield ("lit", "str", t[2][len(t[2]) // 2:])
    if k == "lam" and t[4] is not None:
        yield ("lam", t[1], t[2], None, None) if t[2] == "any" else t
        yield ("lam", ("id", "a", ()), t[2], t[3], t[4])


def _replace_at(t, path, new):
    if not path:
        return new
    i = path[0]
    k = t[0]
    if k == "attr":
        return ("attr", _replace_at(t[1], path[1:], new), t[2])
    if k == "list":
        items = list(t[1]); items[i] = _replace_at(items[i], path[1:], new)
        return ("list", tuple(items))
    if k in ("bin", "cmp", "bool"):
        l, r = t[2], t[3]
        if i == 0:
            l = _replace_at(l, path[1:], new)
        else:
            r = _replace_at(r, path[1:], new)
        return (k, t[1], l, r)
    if k == "un":
        return ("un", t[1], _replace_at(t[2], path[1:], new))
    if k == "call":
        items = list(t[2]); items[i] = _replace_at(items[i], path[1:], new)
        return ("call", t[1], tuple(items))
    if k == "np":
        return ("np", t[1], _replace_at(t[2], path[1:], new))
    if k == "lam":
        if i == 0:
            return ("lam", _replace_at(t[1], path[1:], new), t[2], t[3], t[4])
        return ("lam", t[1], t[2], t[3], _replace_at(t[4], path[1:], new))
    raise ValueError(t)


def _positions(t, prefix=()):
    yield prefix, t
    k = t[0]
    if k == "attr":
        yield from _positions(t[1], prefix + (0,))
    elif k == "list":
        for i, c in enumerate(t[1]):
            yield from _positions(c, prefix + (i,))
    elif k in ("bin", "cmp", "bool"):
        yield from _positions(t[2], prefix + (0,))
        yield from _positions(t[3], prefix + (1,))
    elif k == "un":
        yield from _positions(t[2], prefix + (0,))
    elif k == "call":
        for i, c in enumerate(t[2]):
            yield from _positions(c, prefix + (i,))
    elif k == "np":
        yield from _positions(t[2], prefix + (0,))
    elif k == "lam":
        yield from _positions(t[1], prefix + (0,))
        if t[4] is not None:
            yield from _positions(t[4], prefix + (1,))


def valid(t):
    """Structural well-formedness the printers rely on."""
    for n in T.walk(t):
        if n[0] == "cmp" and n[1] == "in" and n[3][0] != "list":
            return False
        if n[0] == "attr" and n[1][0] not in ("id", "attr"):
            return False
        if n[0] == "lam" and n[1][0] not in ("id", "attr"):
            return False
        if n[0] == "list" and len(n[1]) == 0:
            return False
        if n[0] == "call" and n[2]:
            nps = [a[0] == "np" for a in n[2]]
            if any(nps) and not all(nps):
                return False
    return True


def shrink(t, still_fails, max_tries=400, accept=None):
    """Return a (locally) minimal term for which still_fails(term) is true."""
    tries = 0
    improved = True
    while improved and tries < max_tries:
        improved = False
        for pos, sub in sorted(_positions(t), key=lambda ps: -T.size(ps[1])):
            for cand in _candidates(sub):
                if cand == sub or T.size(cand) >= T.size(sub) and cand[0] != "lit":
                    continue
                new = _replace_at(t, pos, cand)
                if new == t or not valid(new) or (accept is not None and not accept(new)):
                    continue
                tries += 1
                if tries > max_tries:
                    return t
                try:
                    ok = still_fails(new)
                except Exception:
                    ok = False
                if ok:
                    t = new
                    improved = True
                    break
            if improved:
                break
    return t
