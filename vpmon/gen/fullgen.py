"""Untyped generator over the full expression grammar (every node kind the parser can
produce).  Used where only syntax matters (C05 C10 C13 C14 C16 C17 C19 C20)."""
from . import terms as T

IDENTS = ["a", "b", "c", "name", "title", "author", "price", "x1", "_u", "created_at",
          "notes", "inside", "android", "order", "index", "model", "letter", "integer",
          "not_done", "ordering", "divx", "modx", "eqx", "andy", "orx", "innate"]
KW_IDENTS = ["nullable", "anything", "allowed", "trueness", "falsehood", "any_x", "all_x",
             "nulls", "truex", "allow", "anyone"]
NAMESPACES = [("ns",), ("my", "pkg"), ("geo2",)]
ATTRS = ["name", "id", "author", "title", "country", "comments", "tags", "b", "c"]
VARS = ["x", "y", "it", "p", "c1"]

STRINGS = ["", "a", "abc", "o'x", "''", "it''s", " pad ", "a%b_c", "x\\y", "--", ";",
           "é中", "a b", "(", ")", ",", "' or 1 eq 1", "\n", "null", "and"]
LITS = {
    "int": ["0", "1", "7", "42", "-1", "-3", "+5", "007", "12345678901234567890"],
    "float": ["1.5", "-0.25", "3.0", "1e3", "2.5e-3", "-1E+2", "0.0", "+4.25"],
    "bool": ["true", "false"],
    "null": ["null"],
    "guid": ["6c0e37e3-e856-45ee-bd58-484b11882c67", "00000000-0000-0000-0000-000000000000",
             "ABCDEF01-2345-6789-abcd-ef0123456789"],
    "date": ["2020-01-01", "1999-12-31", "2024-02-29", "9999-12-31", "1000-01-01"],
    "time": ["00:00:00", "23:59:59", "12:30:15.250", "01:02:03.123456"],
    "datetime": ["2020-01-01T00:00:00", "2020-01-01T10:20:30Z", "1999-12-31T23:59:59.999+01:00",
                 "2021-06-15T12:00", "2021-06-15T12:00:00-05:30", "2020-02-29T00:00:00.5Z",
                 "2020-01-01T10:00:00+00:00", "2020-01-01T10:00:00-00:00", "2020-01-01T10:00+00:00",
                 "2020-01-01T10:00:00.000Z", "2020-01-01T10:00:00+14:00", "2020-01-01T00:00:00-12:00"],
    "duration": ["P1D", "PT1S", "P1Y2M3DT4H5M6S", "-P3D", "+PT0.5S", "P365DT12H1M1.1S",
                 "PT12H", "P2M", "P1Y", "PT", "P1DT", "P", "-P1Y2MT", "P0D", "PT0S", "P00DT00H", "PT1M", "P1M"],
    "geo": ["POINT(1 2)", "SRID=4326;POINT(5.5 50.1)", "a''b", "''", "O''Neil POINT(0 0)",
            "POLYGON((0 0, 0 1, 1 1, 1 0, 0 0))"],
}
BUILTINS = {
    "concat": (2, 2), "contains": (2, 2), "endswith": (2, 2), "indexof": (2, 2),
    "length": (1, 1), "startswith": (2, 2), "substring": (2, 3), "matchesPattern": (2, 2),
    "tolower": (1, 1), "toupper": (1, 1), "trim": (1, 1), "year": (1, 1), "month": (1, 1),
    "day": (1, 1), "hour": (1, 1), "minute": (1, 1), "second": (1, 1),
    "fractionalseconds": (1, 1), "totalseconds": (1, 1), "date": (1, 1), "time": (1, 1),
    "totaloffsetminutes": (1, 1), "mindatetime": (0, 0), "maxdatetime": (0, 0),
    "now": (0, 0), "round": (1, 1), "floor": (1, 1), "ceiling": (1, 1),
    "geo.distance": (2, 2), "geo.length": (1, 1), "geo.intersects": (2, 2),
    "hassubset": (2, 2), "hassubsequence": (2, 2),
}
CUSTOM_FUNCS = ["my.func", "ns.f", "a.b.c", "odata.concat", "custom.length"]


class Opts:
    def __init__(self, **kw):
        self.kw_idents = True         # identifiers that start with a keyword
        self.namespaces = True
        self.lambdas = True
        self.named = True
        self.max_named = 5
        self.deep_lambda_owner = True  # lambda owner paths with 3+ segments
        self.ns_lambda_vars = True     # any(ns.x: ...)
        self.max_path = 4
        self.lit_kinds = list(LITS) + ["str"]
        self.strings = STRINGS
        self.geo = True
        self.__dict__.update(kw)


def gen_ident(rng, o, plain=False):
    pool = IDENTS + (KW_IDENTS if o.kw_idents else [])
    name = rng.choice(pool)
    if not plain and o.namespaces and rng.random() < 0.08:
        return T.ident(name, rng.choice(NAMESPACES))
    return T.ident(name)


def gen_path(rng, o, maxlen=None):
    n = rng.randint(2, maxlen or o.max_path)
    # the root of a path may carry a namespace (ns.a/b/c)
    t = gen_ident(rng, o, plain=not o.namespaces or rng.random() > 0.15)
    if t[2] and rng.random() < 0.5:
        t = ("id", t[1], rng.choice(NAMESPACES))
    for _ in range(n - 1):
        t = ("attr", t, rng.choice(ATTRS))
    return t


def gen_lit(rng, o, kinds=None):
    kind = rng.choice(kinds or o.lit_kinds)
    if kind == "geo" and not o.geo:
        kind = "str"
    if kind == "str":
        return T.S(rng.choice(o.strings))
    return T.lit(kind, rng.choice(LITS[kind]))


def gen_leaf(rng, o):
    r = rng.random()
    if r < 0.45:
        return gen_ident(rng, o)
    if r < 0.60:
        return gen_path(rng, o)
    return gen_lit(rng, o)


def gen_list(rng, o, depth):
    n = rng.choice([1, 1, 2, 2, 3, 4])
    return ("list", tuple(gen_expr(rng, o, max(0, depth - 1), in_list=True) for _ in range(n)))


def gen_call(rng, o, depth):
    if rng.random() < 0.7:
        name = rng.choice(list(BUILTINS))
        lo, hi = BUILTINS[name]
        n = rng.randint(lo, hi)
        return ("call", name, tuple(gen_expr(rng, o, depth - 1) for _ in range(n)))
    name = rng.choice(CUSTOM_FUNCS)
    if o.named and rng.random() < 0.4:
        n = rng.randint(1, o.max_named)
        names = rng.sample(["k", "v", "w", "p1", "p2", "mode", "n", "notes", "index", "year",
                            "length", "anyone"], n)
        # a parameter name is an identifier like any other: it may carry a namespace
        return ("call", name, tuple(
            ("np", T.ident(nm, rng.choice(NAMESPACES) if o.namespaces and rng.random() < 0.25 else ()),
             gen_expr(rng, o, depth - 1)) for nm in names))
    n = rng.randint(0, 4)
    return ("call", name, tuple(gen_expr(rng, o, depth - 1) for _ in range(n)))


def gen_lambda(rng, o, depth):
    if o.deep_lambda_owner and rng.random() < 0.3:
        owner = gen_path(rng, o)
    elif rng.random() < 0.5:
        owner = gen_path(rng, o, 2)
    else:
        owner = gen_ident(rng, o, plain=not o.namespaces or rng.random() > 0.15)
    r = rng.random()
    if r < 0.15:
        return ("lam", owner, "any", None, None)
    var = rng.choice(VARS)
    quant = "any" if r < 0.6 else "all"
    if rng.random() < 0.06:
        # the variable spelled like the collection itself (tags/any(tags: tags eq 'x')): the
        # owner is a field reference OUTSIDE the scope it introduces
        root = owner
        while root[0] == "attr":
            root = root[1]
        if root[0] == "id" and not root[2]:
            var = root[1] if owner[0] == "id" or rng.random() < 0.5 else owner[2]
    if o.namespaces and o.ns_lambda_vars and rng.random() < 0.05:
        # the variable itself may be namespace-qualified (ns.x: ns.x/a eq 1)
        ns = rng.choice(NAMESPACES)
        body = gen_expr(rng, o, depth - 1, var=None)
        inner = ("cmp", "eq", ("attr", ("id", var, ns), rng.choice(ATTRS)), T.I(1))
        return ("lam", owner, quant, ".".join(ns + (var,)), ("bool", "and", inner, body))
    body = gen_expr(rng, o, depth - 1, var=var)
    return ("lam", owner, quant, var, body)


def gen_expr(rng, o, depth, var=None, in_list=False):
    if depth <= 0:
        if var and o.namespaces and rng.random() < 0.06:
            # a namespace-qualified FIELD whose last segment is spelled like the lambda
            # variable in scope (ns.x inside any(x: ...)): free, not the variable
            t = T.ident(var, rng.choice(NAMESPACES))
            for _ in range(rng.randint(0, 2)):
                t = ("attr", t, rng.choice(ATTRS))
            return t
        if var and rng.random() < 0.5:
            t = T.ident(var)
            for _ in range(rng.randint(1, 2)):
                t = ("attr", t, rng.choice(ATTRS))
            return t
        return gen_leaf(rng, o)
    r = rng.random()
    if r < 0.13:
        return gen_leaf(rng, o)
    if r < 0.30:
        return ("bin", rng.choice(T.BIN_OPS), gen_expr(rng, o, depth - 1, var),
                gen_expr(rng, o, depth - 1, var))
    if r < 0.50:
        op = rng.choice(T.CMP_OPS)
        if op == "in":
            return ("cmp", "in", gen_expr(rng, o, depth - 1, var), gen_list(rng, o, depth - 1))
        return ("cmp", op, gen_expr(rng, o, depth - 1, var), gen_expr(rng, o, depth - 1, var))
    if r < 0.68:
        return ("bool", rng.choice(T.BOOL_OPS), gen_expr(rng, o, depth - 1, var),
                gen_expr(rng, o, depth - 1, var))
    if r < 0.80:
        return ("un", rng.choice(T.UN_OPS), gen_expr(rng, o, depth - 1, var))
    if r < 0.90:
        return gen_call(rng, o, depth)
    if r < 0.95 and o.lambdas:
        return gen_lambda(rng, o, depth)
    return gen_list(rng, o, depth)
