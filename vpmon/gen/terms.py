"""Neutral term language of the verification side (plain tuples, NOT odata_query.ast).

  ("id", name, ns)                ns = tuple of namespace parts
  ("attr", owner, name)           owner/name
  ("lit", kind, text)             kind in LIT_KINDS; for "str"/"geo" text is the *value*
                                  (unescaped), for all others the source spelling
  ("list", (items...))
  ("bin", op, l, r)               op in add sub mul div mod
  ("cmp", op, l, r)               op in eq ne lt le gt ge in   (r of "in" is a list)
  ("bool", op, l, r)              op in and or
  ("un", op, x)                   op in not neg
  ("call", fullname, (args...))   fullname may contain dots
  ("np", name, value)             named parameter (name is an "id" term)
  ("lam", owner, quant, var, body)  quant in any all; var: str or None; body or None
"""

LIT_KINDS = (
    "int", "float", "bool", "null", "str", "guid", "date", "time", "datetime",
    "duration", "geo",
)
BIN_OPS = ("add", "sub", "mul", "div", "mod")
CMP_OPS = ("eq", "ne", "lt", "le", "gt", "ge", "in")
BOOL_OPS = ("and", "or")
UN_OPS = ("not", "neg")

# precedence levels, from the OData 4.01 URL conventions 5.1.1.14 table (higher binds
# tighter).  This table is the only place where precedence is written down on the
# verification side.
LEVEL = {
    "or": 1, "and": 2,
    "eq": 3, "ne": 3,
    "lt": 4, "le": 4, "gt": 4, "ge": 4,
    "add": 5, "sub": 5,
    "mul": 6, "div": 6, "mod": 6,
    "not": 7, "neg": 7,
    "in": 8,
}
PRIMARY = 9


def ident(name, ns=()):
    return ("id", name, tuple(ns))


def path(*parts):
    t = ident(parts[0])
    for p in parts[1:]:
        t = ("attr", t, p)
    return t


def lit(kind, text):
    return ("lit", kind, text)


def I(n):
    return ("lit", "int", str(n))


def S(s):
    return ("lit", "str", s)


def lst(*items):
    return ("list", tuple(items))


def call(name, *args):
    return ("call", name, tuple(args))


def level(t):
    k = t[0]
    if k in ("bin", "cmp", "bool", "un"):
        return LEVEL[t[1]]
    return PRIMARY


def children(t):
    k = t[0]
    if k in ("id", "lit"):
        return ()
    if k == "attr":
        return (t[1],)
    if k == "list":
        return t[1]
    if k in ("bin", "cmp", "bool"):
        return (t[2], t[3])
    if k == "un":
        return (t[2],)
    if k == "call":
        return t[2]
    if k == "np":
        return (t[1], t[2])
    if k == "lam":
        return tuple(x for x in (t[1], t[4]) if x is not None)
    raise ValueError(t)


def walk(t):
    yield t
    for c in children(t):
        yield from walk(c)


def size(t):
    return sum(1 for _ in walk(t))


def depth(t):
    cs = children(t)
    return 1 + (max(depth(c) for c in cs) if cs else 0)


def kinds(t):
    """Set of node-kind tags occurring in t (operators are tagged by their name)."""
    out = set()
    for n in walk(t):
        k = n[0]
        if k in ("bin", "cmp", "bool", "un"):
            out.add(n[1])
        elif k == "lit":
            out.add("lit:" + n[1])
        elif k == "call":
            out.add("call:" + n[1])
        elif k == "lam":
            out.add("lam:" + n[2])
        else:
            out.add(k)
    return out


def map_term(f, t):
    """Bottom-up rebuild: f is applied to every node after its children were mapped."""
    k = t[0]
    if k in ("id", "lit"):
        return f(t)
    if k == "attr":
        return f(("attr", map_term(f, t[1]), t[2]))
    if k == "list":
        return f(("list", tuple(map_term(f, x) for x in t[1])))
    if k in ("bin", "cmp", "bool"):
        return f((k, t[1], map_term(f, t[2]), map_term(f, t[3])))
    if k == "un":
        return f(("un", t[1], map_term(f, t[2])))
    if k == "call":
        return f(("call", t[1], tuple(map_term(f, x) for x in t[2])))
    if k == "np":
        return f(("np", t[1], map_term(f, t[2])))
    if k == "lam":
        return f(("lam", map_term(f, t[1]), t[2], t[3],
                  None if t[4] is None else map_term(f, t[4])))
    raise ValueError(t)
