"""Relational workload for C04/C08/C15: schema Country <- Author <- Post <- Comment,
Tag <-> Post; small database instances; filters with to-one paths and any/all lambdas;
reference evaluation over the object graph."""
from . import terms as T

# entity -> scalar columns (name -> type) ; all NOT NULL
COLS = {
    "post": {"title": "str", "rating": "int"},
    "author": {"name": "str", "age": "int"},
    "country": {"name": "str", "code": "int"},
    "region": {"name": "str", "size": "int"},
    "comment": {"text": "str", "score": "int"},
    "tag": {"label": "str", "weight": "int"},
    "profile": {"bio": "str", "level": "int"},
}
# entity -> to-one relationships (name -> target entity)
TO_ONE = {
    # `home` is one relationship NAME on two entities leading to two different tables;
    # Post.home is NOT NULL (like Country.region), Author.home is nullable
    "post": {"author": "author", "home": "country"},
    # Author.profile is a one-to-one seen from the side that does NOT hold the key
    # (profile.author_id): a to-one navigation whose related row may simply not exist
    "author": {"country": "country", "home": "region", "profile": "profile"},
    "profile": {"author": "author"},
    "comment": {"post": "post", "author": "author"},
    "country": {"region": "region"},      # the only NOT NULL foreign key of the schema
    "tag": {}, "region": {},
}
# entity -> collections (name -> target entity)
TO_MANY = {
    # Post.labels: a second many-to-many to Tag whose Django declaration carries BOTH a
    # related_name and a different related_query_name (the reverse side is not navigated)
    "post": {"comments": "comment", "tags": "tag", "labels": "tag"},
    "author": {"posts": "post", "comments": "comment"},
    "country": {"authors": "author"},
    "tag": {"posts": "post"},
    # Comment.replies is a collection of the SAME entity (key comment.parent_id); the to-one
    # side (parent) is deliberately not navigable from filters: same table twice without
    # aliases is the listed two-paths mechanism
    "comment": {"replies": "comment"},
    "region": {"countries": "country"},
    "profile": {},
}
# (entity, relationship) -> (target entity, key column ON THE TARGET that points back)
REVERSE_ONE = {("author", "profile"): ("profile", "author_id")}
STRS = ["x", "y", "zed", "o'k", "a%"]
INTS = [0, 5]
INT_LITS = ["-1", "0", "2", "5", "7"]


# ------------------------------------------------------------------------------------------
# instances
# ------------------------------------------------------------------------------------------
def canonical_instance():
    """For every n in 0..3 and every pass/fail pattern of n children (child value 0 or 5) a
    post with exactly those comments and exactly those tags; authors with every pattern of
    posts; NULL foreign keys; shared m2m children."""
    inst = {"region": [], "country": [], "author": [], "tag": [], "post": [], "comment": [],
            "post_tags": []}
    inst["region"] = [{"id": 1, "name": "x", "size": 0}, {"id": 2, "name": "zed", "size": 5}]
    inst["country"] = [{"id": 1, "name": "x", "code": 0, "region_id": 1},
                       {"id": 2, "name": "y", "code": 5, "region_id": 2},
                       {"id": 3, "name": "zed", "code": 5, "region_id": 1}]
    inst["tag"] = [{"id": 1, "label": "x", "weight": 0}, {"id": 2, "label": "y", "weight": 5},
                   {"id": 3, "label": "x", "weight": 5}, {"id": 4, "label": "zed", "weight": 0}]
    patterns = [[]]
    for n in (1, 2, 3):
        import itertools
        for combo in itertools.combinations_with_replacement([0, 5], n):
            patterns.append(list(combo))
    # authors: country NULL / set; ages 0/5
    inst["author"] = [
        {"id": 1, "name": "x", "age": 0, "country_id": 1, "home_id": 2},
        {"id": 2, "name": "y", "age": 5, "country_id": 2, "home_id": None},
        {"id": 3, "name": "x", "age": 5, "country_id": None, "home_id": 1},
        {"id": 4, "name": "zed", "age": 0, "country_id": 3, "home_id": 1},
        {"id": 5, "name": "o'k", "age": 5, "country_id": 2, "home_id": 2},   # author without posts
    ]
    inst["profile"] = [{"id": 1, "bio": "x", "level": 0, "author_id": 1},
                       {"id": 2, "bio": "zed", "level": 5, "author_id": 3},
                       {"id": 3, "bio": "a%", "level": 5, "author_id": 5},
                       {"id": 4, "bio": "y", "level": 0, "author_id": None}]
    pid = cid = 0
    tag_by_weight = {0: [1, 4], 5: [2, 3]}
    for i, pat in enumerate(patterns):
        pid += 1
        author = [1, 2, 3, 4, None][i % 5]
        inst["post"].append({"id": pid, "title": STRS[i % len(STRS)], "rating": [0, 5][i % 2],
                             "author_id": author, "home_id": [2, 3, 1, 3][(i // 2) % 4]})
        for j, v in enumerate(pat):
            cid += 1
            inst["comment"].append({"id": cid, "text": STRS[(i + j) % len(STRS)], "score": v,
                                    "post_id": pid, "author_id": [1, 2, None, 5][(i + j) % 4],
                                    "parent_id": (cid - 1 if j and (i + j) % 3 else None)})
        used = set()
        for j, v in enumerate(pat):
            tg = tag_by_weight[v][j % 2] if tag_by_weight[v][j % 2] not in used else tag_by_weight[v][(j + 1) % 2]
            if tg in used:
                continue
            used.add(tg)
            inst["post_tags"].append((pid, tg))
    # a comment without post, a post rated 5 by author 2 with no comments already present
    cid += 1
    inst["comment"].append({"id": cid, "text": "x", "score": 5, "post_id": None, "author_id": None,
                            "parent_id": 1})
    ntag = len(inst["tag"])
    inst["post_labels"] = sorted({(p, 1 + (t + p) % ntag) for p, t in inst["post_tags"] if (p + t) % 3})
    return inst


def random_instance(rng):
    inst = {"region": [], "country": [], "author": [], "tag": [], "post": [], "comment": [],
            "post_tags": []}
    nc, na, nt, npost = rng.randint(1, 3), rng.randint(1, 5), rng.randint(0, 4), rng.randint(2, 9)
    nr = rng.randint(1, 2)
    for i in range(nr):
        inst["region"].append({"id": i + 1, "name": rng.choice(STRS), "size": rng.choice(INTS)})
    for i in range(nc):
        inst["country"].append({"id": i + 1, "name": rng.choice(STRS), "code": rng.choice(INTS),
                                "region_id": rng.randint(1, nr)})
    for i in range(na):
        inst["author"].append({"id": i + 1, "name": rng.choice(STRS), "age": rng.choice(INTS),
                               "country_id": rng.choice([None] + list(range(1, nc + 1))),
                               "home_id": rng.choice([None] + list(range(1, nr + 1)))})
    inst["profile"] = []
    for i in range(na):
        if rng.random() < 0.5:
            inst["profile"].append({"id": len(inst["profile"]) + 1, "bio": rng.choice(STRS),
                                    "level": rng.choice(INTS), "author_id": i + 1})
    for i in range(nt):
        inst["tag"].append({"id": i + 1, "label": rng.choice(STRS), "weight": rng.choice(INTS)})
    cid = 0
    for i in range(npost):
        inst["post"].append({"id": i + 1, "title": rng.choice(STRS), "rating": rng.choice(INTS),
                             "author_id": rng.choice([None] + list(range(1, na + 1))),
                             "home_id": rng.randint(1, nc)})
        for _ in range(rng.choice([0, 0, 1, 2, 3])):
            cid += 1
            inst["comment"].append({"id": cid, "text": rng.choice(STRS), "score": rng.choice(INTS),
                                    "post_id": i + 1,
                                    "author_id": rng.choice([None] + list(range(1, na + 1))),
                                    "parent_id": rng.choice([None, None] + list(range(1, cid))) if cid > 1 else None})
        if nt:
            for tg in rng.sample(range(1, nt + 1), rng.randint(0, min(3, nt))):
                inst["post_tags"].append((i + 1, tg))
            for tg in rng.sample(range(1, nt + 1), rng.randint(0, min(2, nt))):
                inst.setdefault("post_labels", []).append((i + 1, tg))
    inst.setdefault("post_labels", [])
    return inst


def dangling_instance(rng):
    """A random instance in which some foreign keys (nullable AND mandatory ones) point at
    rows that do not exist - legal content for an engine that does not enforce foreign keys
    (SQLite by default).  Navigating such a reference yields null, like a NULL key."""
    inst = random_instance(rng)
    inst["_dangling"] = True
    for entity, fk in (("country", "region_id"), ("post", "home_id"), ("post", "author_id"),
                       ("author", "country_id"), ("author", "home_id"), ("comment", "post_id"),
                       ("comment", "author_id")):
        rows = inst[entity]
        for r in rows:
            if rng.random() < 0.35:
                r[fk] = 90 + rng.randint(1, 3)
        if rows and not any(r[fk] is not None and r[fk] > 90 for r in rows):
            rows[0][fk] = 91
    return inst


# ------------------------------------------------------------------------------------------
# object graph + reference evaluation
# ------------------------------------------------------------------------------------------
class Graph:
    def __init__(self, inst):
        self.inst = inst
        self.by_id = {e: {r["id"]: r for r in inst.get(e, [])} for e in COLS}

    def to_one(self, entity, row, rel):
        target = TO_ONE[entity][rel]
        if (entity, rel) in REVERSE_ONE:
            _, back = REVERSE_ONE[(entity, rel)]
            hits = [r for r in self.inst.get(target, []) if r.get(back) == row["id"]]
            return target, (hits[0] if hits else None)
        fk = row.get(rel + "_id")
        return target, (self.by_id[target].get(fk) if fk is not None else None)

    def to_many(self, entity, row, rel):
        target = TO_MANY[entity][rel]
        inst = self.inst
        if (entity, rel) == ("comment", "replies"):
            return target, [c for c in inst["comment"] if c.get("parent_id") == row["id"]]
        if (entity, rel) == ("post", "comments"):
            return target, [c for c in inst["comment"] if c["post_id"] == row["id"]]
        if (entity, rel) == ("post", "tags"):
            ids = [t for p, t in inst["post_tags"] if p == row["id"]]
            return target, [self.by_id["tag"][i] for i in ids]
        if (entity, rel) == ("post", "labels"):
            ids = [t for p, t in inst.get("post_labels", []) if p == row["id"]]
            return target, [self.by_id["tag"][i] for i in ids]
        if (entity, rel) == ("tag", "posts"):
            ids = [p for p, t in inst["post_tags"] if t == row["id"]]
            return target, [self.by_id["post"][i] for i in ids]
        if (entity, rel) == ("author", "posts"):
            return target, [p for p in inst["post"] if p["author_id"] == row["id"]]
        if (entity, rel) == ("author", "comments"):
            return target, [c for c in inst["comment"] if c["author_id"] == row["id"]]
        if (entity, rel) == ("country", "authors"):
            return target, [a for a in inst["author"] if a["country_id"] == row["id"]]
        if (entity, rel) == ("region", "countries"):
            return target, [c for c in inst["country"] if c["region_id"] == row["id"]]
        raise KeyError((entity, rel))


UNSPEC = object()
NULLREL = object()   # a navigated to-one relationship that is missing


def path_parts(t):
    parts = []
    while t[0] == "attr":
        parts.append(t[2])
        t = t[1]
    parts.append(t[1])
    return parts[::-1]


class RelEval:
    """Three-valued evaluation of the relational fragment over a Graph."""

    def __init__(self, graph):
        self.g = graph
        self.flags = set()

    def navigate(self, entity, row, parts, env):
        """Follow a path; -> (kind, entity, value): kind in scalar / entity / collection"""
        if parts[0] in env:
            entity, row = env[parts[0]]
            parts = parts[1:]
            if not parts:
                return ("entity", entity, row)
        for i, p in enumerate(parts):
            if row is None:
                return ("scalar", None, None)      # navigation through a missing row -> null
            if p in COLS[entity]:
                if i != len(parts) - 1:
                    return ("scalar", None, UNSPEC)
                return ("scalar", None, row[p])
            if p in TO_ONE[entity]:
                fk = row.get(p + "_id")
                entity, row = self.g.to_one(entity, row, p)
                if i == len(parts) - 1:
                    if row is None and fk is not None:
                        # the reference itself of a dangling key: key value vs. related row
                        return ("scalar", None, UNSPEC)
                    return ("entity", entity, row)
                continue
            if p in TO_MANY[entity]:
                if i != len(parts) - 1:
                    return ("scalar", None, UNSPEC)
                target, rows = self.g.to_many(entity, row, p)
                return ("collection", target, rows)
            return ("scalar", None, UNSPEC)
        return ("entity", entity, row)

    def value(self, t, entity, row, env):
        k = t[0]
        if k == "lit":
            if t[1] == "int":
                return int(t[2])
            if t[1] == "str":
                return t[2]
            if t[1] == "null":
                return None
            if t[1] == "bool":
                return t[2] == "true"
            return UNSPEC
        if k in ("id", "attr"):
            kind, e2, v = self.navigate(entity, row, path_parts(t), env)
            if kind == "scalar":
                return v
            if kind == "entity":
                return NULLREL if v is None else ("entity", e2, v["id"])
            return UNSPEC
        if k == "bin":
            a, b = self.value(t[2], entity, row, env), self.value(t[3], entity, row, env)
            if a is UNSPEC or b is UNSPEC:
                return UNSPEC
            if a is None or b is None:
                return None
            if not isinstance(a, int) or not isinstance(b, int):
                return UNSPEC
            return {"add": a + b, "sub": a - b, "mul": a * b}.get(t[1], UNSPEC)
        return UNSPEC

    def truth(self, t, entity, row, env=None):
        env = env or {}
        k = t[0]
        if k == "bool":
            a, b = self.truth(t[2], entity, row, env), self.truth(t[3], entity, row, env)
            if t[1] == "and":
                if a is False or b is False:
                    return False
                if a is UNSPEC or b is UNSPEC:
                    return UNSPEC
                if a is None or b is None:
                    return None
                return True
            if a is True or b is True:
                return True
            if a is UNSPEC or b is UNSPEC:
                return UNSPEC
            if a is None or b is None:
                return None
            return False
        if k == "un" and t[1] == "not":
            a = self.truth(t[2], entity, row, env)
            if a is UNSPEC or a is None:
                return a
            return not a
        if k == "lam":
            kind, target, rows = self.navigate(entity, row, path_parts(t[1]), env)
            if kind != "collection":
                if kind == "scalar" and rows is None:
                    # owner path navigates through a missing row: an EMPTY collection - any is
                    # false, all is (vacuously) true, as for a parent without children
                    self.flags.add("lambda-owner-through-null")
                    return t[2] != "any"
                return UNSPEC
            if t[3] is None:
                return len(rows) > 0
            results = [self.truth(t[4], target, r, dict(env, **{t[3]: (target, r)})) for r in rows]
            if any(x is UNSPEC for x in results):
                return UNSPEC
            if t[2] == "any":
                if any(x is True for x in results):
                    return True
                return None if any(x is None for x in results) else False
            if any(x is False for x in results):
                return False
            return None if any(x is None for x in results) else True
        if k == "cmp":
            op = t[1]
            if op == "in":
                x = self.value(t[2], entity, row, env)
                items = [self.value(i, entity, row, env) for i in t[3][1]]
                if x is UNSPEC or any(i is UNSPEC for i in items):
                    return UNSPEC
                if x is None or x is NULLREL:
                    return None
                return x in items
            a, b = self.value(t[2], entity, row, env), self.value(t[3], entity, row, env)
            if a is UNSPEC or b is UNSPEC:
                return UNSPEC
            NULL = ("lit", "null", "null")
            if op in ("eq", "ne") and (t[3] == NULL or t[2] == NULL):
                x = a if t[3] == NULL else b
                isnull = x is None or x is NULLREL
                return isnull if op == "eq" else not isnull
            if a is NULLREL or b is NULLREL or a is None or b is None:
                return None
            if isinstance(a, tuple) or isinstance(b, tuple):
                return UNSPEC
            if type(a) is not type(b):
                return UNSPEC
            return {"eq": a == b, "ne": a != b, "lt": a < b, "le": a <= b, "gt": a > b,
                    "ge": a >= b}[op]
        if k == "call" and t[1] in ("contains", "startswith", "endswith"):
            s, p = self.value(t[2][0], entity, row, env), self.value(t[2][1], entity, row, env)
            if s is UNSPEC or p is UNSPEC:
                return UNSPEC
            if s is None or p is None:
                return None
            if any(c in p for c in "%_"):
                self.flags.add("like-wildcard")
            f = {"contains": lambda x, y: y in x, "startswith": lambda x, y: x.startswith(y),
                 "endswith": lambda x, y: x.endswith(y)}[t[1]]
            if f(s.lower(), p.lower()) != f(s, p):
                return UNSPEC
            return f(s, p)
        return UNSPEC


# ------------------------------------------------------------------------------------------
# filter generator
# ------------------------------------------------------------------------------------------
def scalar_pred(rng, entity, prefix):
    """A predicate over the (non-null) scalar columns of `entity`; prefix = path root term
    or None for root-level fields."""
    col = rng.choice(sorted(COLS[entity]))
    typ = COLS[entity][col]
    ref = T.ident(col) if prefix is None else ("attr", prefix, col)
    r = rng.random()
    if typ == "int":
        if r < 0.15:
            return ("cmp", "in", ref, ("list", tuple(T.lit("int", rng.choice(INT_LITS))
                                                      for _ in range(rng.randint(1, 3)))))
        lhs = ref
        if r < 0.3:
            lhs = ("bin", rng.choice(["add", "sub", "mul"]), ref, T.lit("int", rng.choice(["1", "2"])))
        return ("cmp", rng.choice(["eq", "ne", "lt", "le", "gt", "ge"]), lhs,
                T.lit("int", rng.choice(INT_LITS)))
    if r < 0.25:
        return ("call", rng.choice(["contains", "startswith", "endswith"]),
                (ref, T.S(rng.choice(["x", "z", "e", "o'", "k"]))))
    if r < 0.4:
        return ("cmp", "in", ref, ("list", tuple(T.S(rng.choice(STRS)) for _ in range(rng.randint(1, 3)))))
    return ("cmp", rng.choice(["eq", "ne", "lt", "ge"]), ref, T.S(rng.choice(STRS)))


def body_pred(rng, entity, var, depth, lambda_depth, opts):
    """Lambda body: scalar fragment over the child's own columns (+ nested lambda)."""
    r = rng.random()
    if lambda_depth < 2 and TO_MANY[entity] and r < 0.25:
        return gen_lambda(rng, entity, T.ident(var), depth, lambda_depth, opts)
    if depth > 0 and r < 0.5:
        return ("bool", rng.choice(["and", "or"]), body_pred(rng, entity, var, depth - 1, lambda_depth, opts),
                body_pred(rng, entity, var, depth - 1, lambda_depth, opts))
    if depth > 0 and r < 0.6:
        return ("un", "not", body_pred(rng, entity, var, depth - 1, lambda_depth, opts))
    if opts.get("to_one_in_body") and TO_ONE[entity] and r < 0.75:
        rel = rng.choice(sorted(TO_ONE[entity]))
        return scalar_pred(rng, TO_ONE[entity][rel], ("attr", T.ident(var), rel))
    return scalar_pred(rng, entity, T.ident(var))


def gen_lambda(rng, entity, prefix, depth, lambda_depth, opts):
    """collection/any|all lambda whose owner is prefix/<collection> (prefix may be None)."""
    rel = rng.choice(sorted(TO_MANY[entity]))
    owner = T.ident(rel) if prefix is None else ("attr", prefix, rel)
    target = TO_MANY[entity][rel]
    r = rng.random()
    if r < 0.15:
        return ("lam", owner, "any", None, None)
    var = ["x", "y", "z"][lambda_depth]
    quant = "any" if r < 0.6 else "all"
    return ("lam", owner, quant, var, body_pred(rng, target, var, depth - 1, lambda_depth + 1, opts))


def owner_path_lambda_grid(entity, max_hops=2):
    """Deterministic cells: every collection reached from `entity` directly or through a to-one
    path of 1..max_hops hops (no entity twice), as owner of any() / any(..) / all(..) with three
    bodies, alone and combined with a root-level predicate by and / or / not.  The filters with
    no or / not / null anywhere are among them."""
    out = []
    icol = sorted(c for c, t in COLS[entity].items() if t == "int")[0]
    root_pred = ("cmp", "ge", T.ident(icol), T.lit("int", "0"))

    def walk(e, prefix, seen, hops):
        for rel in sorted(TO_MANY[e]):
            owner = T.ident(rel) if prefix is None else ("attr", prefix, rel)
            target = TO_MANY[e][rel]
            ic = sorted(c for c, t in COLS[target].items() if t == "int")[0]
            sc = sorted(c for c, t in COLS[target].items() if t == "str")[0]
            bodies = [("cmp", "gt", T.path("x", ic), T.lit("int", "0")), ("cmp", "eq", T.path("x", ic), T.lit("int", "5")),
                      ("call", "contains", (T.path("x", sc), T.S("x")))]
            lams = [("lam", owner, "any", None, None)]
            for b in bodies:
                lams.append(("lam", owner, "any", "x", b))
                lams.append(("lam", owner, "all", "x", b))
            # the same collection twice as the two operands of one and / or (different variables,
            # different bodies): a parent whose children split between the two predicates
            for qa in ("any", "all"):
                for qb in ("any", "all"):
                    for conn in ("and", "or"):
                        for ba, bb in ((bodies[0], bodies[1]), (bodies[1], bodies[2])):
                            by = T.map_term(lambda n: ("id", "y", ()) if n == ("id", "x", ()) else n, bb)
                            out.append(("bool", conn, ("lam", owner, qa, "x", ba), ("lam", owner, qb, "y", by)))
            for lam in lams:
                out.append(lam)
                out.append(("bool", "and", lam, root_pred))
                out.append(("bool", "and", root_pred, lam))
                out.append(("bool", "or", lam, ("cmp", "lt", T.ident(icol), T.lit("int", "0"))))
                out.append(("un", "not", lam))
        if hops >= max_hops:
            return
        for rel in sorted(TO_ONE[e]):
            tgt = TO_ONE[e][rel]
            if tgt in seen:
                continue
            walk(tgt, T.ident(rel) if prefix is None else ("attr", prefix, rel), seen | {tgt}, hops + 1)
    walk(entity, None, {entity}, 0)
    return out


def to_one_pred(rng, entity, opts):
    """Predicate on a to-one path of depth 1..3 from `entity`."""
    prefix, e = None, entity
    steps = 0
    seen = {entity}
    while TO_ONE[e] and steps < 3 and (steps == 0 or rng.random() < 0.5):
        # never navigate back to an entity already on the path (author/profile/author):
        # that is the "same entity twice" mechanism of the listed finding, not a new input
        rels = [r for r in sorted(TO_ONE[e]) if TO_ONE[e][r] not in seen]
        if not rels:
            break
        rel = rng.choice(rels)
        prefix = T.ident(rel) if prefix is None else ("attr", prefix, rel)
        e = TO_ONE[e][rel]
        seen.add(e)
        steps += 1
    if prefix is None:
        return scalar_pred(rng, entity, None)
    r = rng.random()
    last_is_reverse = any(prefix[0] == "attr" and prefix[2] == rel or prefix == T.ident(rel)
                          for (_, rel) in REVERSE_ONE)
    if r < 0.15 and not last_is_reverse:
        return ("cmp", rng.choice(["eq", "ne"]), prefix, T.lit("null", "null"))   # relationship null test
    if r < 0.30:
        col = rng.choice(sorted(COLS[e]))
        return ("cmp", rng.choice(["eq", "ne"]), ("attr", prefix, col), T.lit("null", "null"))
    if r < 0.40 and TO_MANY[e] and opts.get("lambda_owner_paths", True):
        return gen_lambda(rng, e, prefix, 2, 0, opts)
    return scalar_pred(rng, e, prefix)


def gen_filter(rng, entity, depth, opts=None):
    opts = opts or {}
    if depth <= 0:
        r = rng.random()
        if r < 0.35 and TO_MANY[entity]:
            return gen_lambda(rng, entity, None, 2, 0, opts)
        if r < 0.70 and TO_ONE[entity]:
            return to_one_pred(rng, entity, opts)
        return scalar_pred(rng, entity, None)
    r = rng.random()
    if r < 0.55:
        return ("bool", rng.choice(["and", "or"]), gen_filter(rng, entity, depth - 1, opts),
                gen_filter(rng, entity, depth - 1, opts))
    if r < 0.70:
        return ("un", "not", gen_filter(rng, entity, depth - 1, opts))
    return gen_filter(rng, entity, 0, opts)


def uses_to_one(t):
    """True when the filter navigates a to-one relationship (outside lambda variables)."""
    rels = {r for e in TO_ONE.values() for r in e}
    return any(n[0] == "attr" and (n[2] in rels or (n[1][0] == "id" and n[1][1] in rels))
               for n in T.walk(t)) or any(n[0] == "id" and n[1] in rels for n in T.walk(t))


def welltyped(t, entity, env=None):
    """Is t a boolean-typed filter of the relational fragment rooted at `entity`?"""
    env = env or {}

    def path_type(n, entity, env):
        """-> ("scalar", type) | ("entity", e) | ("collection", e) | None"""
        parts = path_parts(n)
        e = entity
        if parts[0] in env:
            e = env[parts[0]]
            parts = parts[1:]
            if not parts:
                return ("entity", e)
        for i, p in enumerate(parts):
            last = i == len(parts) - 1
            if p in COLS[e]:
                return ("scalar", COLS[e][p]) if last else None
            if p in TO_ONE[e]:
                e = TO_ONE[e][p]
                if last:
                    return ("entity", e)
                continue
            if p in TO_MANY[e]:
                return ("collection", TO_MANY[e][p]) if last else None
            return None
        return None

    def vtype(n, entity, env):
        if n[0] == "lit":
            return {"int": "int", "str": "str", "null": "null"}.get(n[1])
        if n[0] in ("id", "attr"):
            pt = path_type(n, entity, env)
            if pt and pt[0] == "scalar":
                return pt[1]
            if pt and pt[0] == "entity":
                return "entity"
            return None
        if n[0] == "bin":
            return "int" if vtype(n[2], entity, env) == "int" and vtype(n[3], entity, env) == "int" \
                and n[1] in ("add", "sub", "mul") else None
        return None

    def btype(n, entity, env):
        k = n[0]
        if k == "bool":
            return btype(n[2], entity, env) and btype(n[3], entity, env)
        if k == "un":
            return n[1] == "not" and btype(n[2], entity, env)
        if k == "lam":
            pt = path_type(n[1], entity, env)
            if not pt or pt[0] != "collection":
                return False
            if n[3] is None:
                return n[2] == "any"
            return btype(n[4], pt[1], dict(env, **{n[3]: pt[1]}))
        if k == "cmp":
            l, r = vtype(n[2], entity, env), None
            if n[1] == "in":
                if n[3][0] != "list" or not n[3][1]:
                    return False
                ts = {vtype(i, entity, env) for i in n[3][1]}
                return l in ("int", "str") and ts == {l} and n[2][0] != "lit"
            r = vtype(n[3], entity, env)
            if l is None or r is None:
                return False
            if r == "null":
                return n[1] in ("eq", "ne") and n[2][0] != "lit"
            if l == "entity" or r == "entity" or l == "null":
                return False
            if n[2][0] == "lit" and n[3][0] == "lit":
                return False
            return l == r
        if k == "call":
            return n[1] in ("contains", "startswith", "endswith") and len(n[2]) == 2 and \
                vtype(n[2][0], entity, env) == "str" and n[2][1][0] == "lit" and n[2][1][1] == "str"
        return False
    return bool(btype(t, entity, env))
