"""ABNF-driven spellings of primitive literals and identifiers, each generated *together
with* its meaning (computed here, independently of the library).

gen_<kind>(rng) -> (spelling, kind, expect) where expect is a dict:
   "val"   : the exact .val the node must carry (None = not pinned)
   "py"    : the Python value its py_val must equal (or ("approx-td", timedelta) etc.)
"""
import calendar
import datetime as dt
import uuid
from fractions import Fraction

KINDS = ["int", "float", "bool", "null", "str", "guid", "date", "time", "datetime",
         "duration", "geo"]


def _case(rng, s):
    m = rng.randrange(4)
    if m == 0:
        return s
    if m == 1:
        return s.upper()
    if m == 2:
        return s.capitalize()
    return "".join(c.upper() if rng.random() < 0.5 else c.lower() for c in s)


def gen_int(rng):
    sign = rng.choice(["", "", "-", "+"])
    m = rng.randrange(6)
    if m == 0:
        digits = str(rng.randrange(10))
    elif m == 1:
        digits = "0" * rng.randint(1, 4) + str(rng.randrange(1000))
    elif m == 2:
        digits = str(rng.randrange(10 ** 19, 10 ** 40))
    elif m == 3:
        digits = rng.choice(["0", "2147483647", "2147483648", "9223372036854775807",
                             "9223372036854775808", "4294967296",
                             # digit runs with the length / shape of another literal kind:
                             # 32 (a GUID without dashes), 8 (a date without dashes), 6, 14, 36
                             "1" + "0" * 31, "12345678901234567890123456789012", "20200101",
                             "101500", "20200101101500", "9" * 36, "1" * 31, "1" * 33])
    else:
        digits = str(rng.randrange(10 ** rng.randint(1, 12)))
    s = sign + digits
    return s, "int", {"val": s, "py": int(s)}


def gen_float(rng):
    sign = rng.choice(["", "", "-", "+"])
    ip = str(rng.randrange(10 ** rng.randint(1, 8)))
    if rng.random() < 0.2:
        ip = "0" * rng.randint(1, 2) + ip
    frac = rng.random() < 0.7
    exp = (not frac) or rng.random() < 0.5
    s = sign + ip
    if frac:
        s += "." + "".join(rng.choice("0123456789") for _ in range(rng.randint(1, 12)))
    if exp:
        s += rng.choice("eE") + rng.choice(["", "+", "-"]) + str(rng.randrange(0, 250))
    try:
        py = float(Fraction(s))
    except OverflowError:
        py = float("-inf") if s.startswith("-") else float("inf")
    return s, "float", {"val": s, "py": py}


def gen_bool(rng):
    w = rng.choice(["true", "false"])
    s = _case(rng, w)
    return s, "bool", {"val": s, "py": w == "true"}


def gen_null(rng):
    s = _case(rng, "null")
    return s, "null", {"val": None, "py": None}


STR_PIECES = ["", "a", "abc", "'", "''", "o'x", "'lead", "trail'", "a'b'c", "%", "_", "\\",
              "\\'", "--", ";", "/*", "*/", "\n", "\t", "\x00", "é", "ß", "中文", "😀",
              "’", "ʼ", "＇", " ", "  pad  ", "null", "true", " eq ", " and ",
              "(", ")", ",", "duration'P1D", "geography'", "1", "2020-01-01", '"', "`",
              # shapes a (mis-placed) decoding step would rewrite: entities, percent-encoding,
              # plus-as-space, backslash and unicode escapes, template syntaxes
              "&amp;", "&lt", "&gt;", "&#39;", "&apos;", "&quot;", "&cent", "&para", "&", "&copy;", "&#x41;",
              "%41", "%20", "%25", "%", "+", "\\n", "\\u0041", "\\x41", "$(x)", "${x}", "{{x}}", "{0}",
              "<b>", "=?", "\r", "\ufeff", "\u200b"]


def gen_str(rng):
    n = rng.choice([0, 1, 1, 2, 3, 5])
    content = "".join(rng.choice(STR_PIECES) for _ in range(n))
    if rng.random() < 0.2:
        # the whole content spells a well-formed literal of ANOTHER kind (with or without its
        # prefix and quotes), a keyword or an operator: still a string
        kind = rng.choice(["int", "float", "bool", "null", "guid", "date", "time", "datetime",
                           "duration", "duration-bare", "word"])
        if kind == "word":
            content = rng.choice(["eq", "and", "not", "in", "any", "all", "add", "null", "true", "INF", "NaN"])
        elif kind == "duration-bare":
            sp = GEN["duration"](rng)[0]
            content = sp[sp.index("'") + 1:-1]
        else:
            content = GEN[kind](rng)[0]
    if rng.random() < 0.15:
        content = "".join(chr(rng.choice([rng.randrange(32, 127), rng.randrange(0xA0, 0x3000),
                                          rng.randrange(0x1F300, 0x1F700), 39]))
                          for _ in range(rng.randint(1, 12)))
    s = "'" + content.replace("'", "''") + "'"
    return s, "str", {"val": content, "py": content}


def gen_guid(rng):
    u = uuid.UUID(int=rng.getrandbits(128))
    s = str(u)
    m = rng.randrange(3)
    if m == 1:
        s = s.upper()
    elif m == 2:
        s = "".join(c.upper() if rng.random() < 0.5 else c for c in s)
    if rng.random() < 0.1:
        s = rng.choice(["00000000-0000-0000-0000-000000000000",
                        "ffffffff-ffff-ffff-ffff-ffffffffffff",
                        "12345678-1234-1234-1234-123456789012"])
        u = uuid.UUID(s)
    return s, "guid", {"val": s, "py": u}


def _date_parts(rng, early_years):
    ychoices = [1000, 1582, 1900, 1970, 1999, 2000, 2024, 2038, 9999]
    if early_years:
        ychoices += [1, 9, 99, 100, 999]
    y = rng.choice(ychoices) if rng.random() < 0.6 else rng.randint(1 if early_years else 1000,
                                                                   9999)
    m = rng.choice([1, 2, 9, 10, 12, rng.randint(1, 12)])
    last = calendar.monthrange(y, m)[1]
    d = rng.choice([1, 9, 10, 19, 20, 28, last, rng.randint(1, last)])
    d = min(d, last)
    return y, m, d


def gen_date(rng, early_years=True):
    y, m, d = _date_parts(rng, early_years)
    s = "%04d-%02d-%02d" % (y, m, d)
    return s, "date", {"val": s, "py": dt.date(y, m, d)}


def _time_parts(rng, need_seconds=True):
    h = rng.choice([0, 9, 10, 19, 20, 23, rng.randint(0, 23)])
    mi = rng.choice([0, 9, 10, 59, rng.randint(0, 59)])
    if not need_seconds and rng.random() < 0.3:
        return h, mi, None, None, "%02d:%02d" % (h, mi)
    sec = rng.choice([0, 9, 10, 59, rng.randint(0, 59)])
    s = "%02d:%02d:%02d" % (h, mi, sec)
    frac = None
    if rng.random() < 0.5:
        nd = rng.choice([1, 2, 3, 6, 7, 9, 12, rng.randint(1, 12)])
        frac = "".join(rng.choice("0123456789") for _ in range(nd))
        if rng.random() < 0.2:
            frac = "9" * nd
        s += "." + frac
    return h, mi, sec, frac, s


def _micro(frac):
    if not frac:
        return 0
    return int((frac + "000000")[:6])


def gen_time(rng):
    h, mi, sec, frac, s = _time_parts(rng, True)
    return s, "time", {"val": s, "py": dt.time(h, mi, sec, _micro(frac))}


def gen_datetime(rng, early_years=True, tcase=True):
    y, m, d = _date_parts(rng, early_years)
    h, mi, sec, frac, ts = _time_parts(rng, False)
    T = "T"
    tz, tzs = None, ""
    r = rng.random()
    if r < 0.3:
        tzs = "Z"
        tz = dt.timezone.utc
    elif r < 0.6:
        oh = rng.choice([0, 1, 9, 10, 14, 19, 20, 23, rng.randint(0, 23)])
        om = rng.choice([0, 30, 45, 59, rng.randint(0, 59)])
        sg = rng.choice("+-")
        tzs = "%s%02d:%02d" % (sg, oh, om)
        delta = dt.timedelta(hours=oh, minutes=om)
        tz = dt.timezone(delta if sg == "+" else -delta)
    if tcase and rng.random() < 0.15:
        T = "t"
        tzs = tzs.lower()
    s = "%04d-%02d-%02d%s%s%s" % (y, m, d, T, ts, tzs)
    py = dt.datetime(y, m, d, h, mi, sec or 0, _micro(frac), tzinfo=tz)
    # the lexer normalises T / Z to upper case (documented, like durations)
    return s, "datetime", {"val": s.upper(), "py": py, "tz": tz}


def gen_duration(rng):
    sign = rng.choice(["", "", "+", "-"])
    comps = {}
    names = ["Y", "Mo", "D", "H", "Mi", "S"]
    mask = rng.randrange(1, 64)
    for i, nm in enumerate(names):
        if mask >> i & 1:
            hi = {"Y": 2000, "Mo": 20000, "D": 700000, "H": 10 ** 6, "Mi": 10 ** 7,
                  "S": 10 ** 8}[nm]
            v = rng.choice([0, 1, 9, 12, 59, 60, 365, rng.randrange(hi)])
            comps[nm] = str(v) if rng.random() < 0.85 else "0" + str(v)
    body = "P"
    if "Y" in comps:
        body += comps["Y"] + "Y"
    if "Mo" in comps:
        body += comps["Mo"] + "M"
    if "D" in comps:
        body += comps["D"] + "D"
    secs_frac = None
    if any(k in comps for k in ("H", "Mi", "S")):
        body += "T"
        if "H" in comps:
            body += comps["H"] + "H"
        if "Mi" in comps:
            body += comps["Mi"] + "M"
        if "S" in comps:
            if rng.random() < 0.5:
                secs_frac = "".join(rng.choice("0123456789") for _ in range(rng.randint(1, 9)))
                body += comps["S"] + "." + secs_frac + "S"
            else:
                body += comps["S"] + "S"
    days = (Fraction(int(comps.get("D", 0))) + Fraction(int(comps.get("Y", 0))) * Fraction("365.25")
            + Fraction(int(comps.get("Mo", 0))) * Fraction("30.44"))
    seconds = (days * 86400 + Fraction(int(comps.get("H", 0))) * 3600
               + Fraction(int(comps.get("Mi", 0))) * 60
               + Fraction(comps.get("S", "0") + ("." + secs_frac if secs_frac else "")))
    if sign == "-":
        seconds = -seconds
    prefix = _case(rng, "duration")
    inner = sign + body
    if rng.random() < 0.2:
        inner = inner.lower()
    s = prefix + "'" + inner + "'"
    return s, "duration", {"val": inner.upper(), "py_seconds": seconds}


GEO = ["POINT(1 2)", "POINT(-5.5 50.125)", "SRID=4326;POINT(5.5 50.1)",
       "POLYGON((0 0, 0 1, 1 1, 1 0, 0 0))", "LINESTRING(0 0, 1 1, 2 2)",
       "MULTIPOINT((0 0), (1 1))", "Point(1 2)", ""]


def gen_geo(rng):
    inner = rng.choice(GEO)
    s = _case(rng, "geography") + "'" + inner + "'"
    return s, "geo", {"val": inner, "py": None}


GEN = {"int": gen_int, "float": gen_float, "bool": gen_bool, "null": gen_null, "str": gen_str,
       "guid": gen_guid, "date": gen_date, "time": gen_time, "datetime": gen_datetime,
       "duration": gen_duration, "geo": gen_geo}

# ---------------------------------------------------------------------------------------
# names over the alphabet (and with the lengths) of other literal kinds
HEXLIKE_IDENTS = ["cafebabe" * 4, "CAFEBABE" * 4, "deadbeef", "abcdef", "f00d", "e1", "E10", "a" * 32, "ab" * 16,
                  "c0ffee00" * 4, "b" * 31, "b" * 33, "P1D", "PT5M", "T", "Z", "INF", "NaN", "d20200101", "x0"]
KW_IDENTS = ["nullable", "anything", "allowed", "trueness", "falsehood", "notes", "inside",
             "android", "order", "address", "model", "integer", "general", "letter", "index",
             "any_x", "all_x", "not_done", "nulls", "truest", "falsey", "allow", "anyone",
             "Nullable", "TRUEish", "ALLOWED", "Anything", "notx", "inx", "eqx", "nex", "ltx",
             "lex", "gtx", "gex", "andx", "orx", "addx", "subx", "mulx", "divx", "modx",
             "duration", "geography", "durations", "tall", "many", "xnull", "is_true",
             "all1", "any2", "null_", "true_", "false0", "e1", "t10", "z", "T", "inf", "nan"]
_W = "abcdefghijklmnopqrstuvwxyzABCDEFGHIJKLMNOPQRSTUVWXYZ0123456789_"


def gen_ident(rng, kw=True):
    """-> (spelling, name, namespace tuple)"""
    def word(first, n):
        w = rng.choice("abcdefghijklmnopqrstuvwxyzABCDEFGHIJKLMNOPQRSTUVWXYZ_") if first else ""
        return w + "".join(rng.choice(_W) for _ in range(n - len(w)))
    r = rng.random()
    if kw and r < 0.35:
        name = rng.choice(KW_IDENTS)
        parts = [name]
    elif r < 0.45:
        parts = [word(True, rng.choice([127, 128, 100, 64]))]
    else:
        parts = [word(True, rng.randint(1, 12))]
    nns = rng.choice([0, 0, 0, 1, 2, 3])
    for _ in range(nns):
        # later parts may start with a digit or underscore (\w), the first may not
        parts.append(word(rng.random() < 0.8, rng.randint(1, 8)))
        if kw and rng.random() < 0.2:
            parts[-1] = rng.choice(KW_IDENTS)
    # total word characters are limited to 128
    while sum(len(p) for p in parts) > 128:
        longest = max(range(len(parts)), key=lambda i: len(parts[i]))
        parts[longest] = parts[longest][: len(parts[longest]) - 1]
    s = ".".join(parts)
    return s, parts[-1], tuple(parts[:-1])
