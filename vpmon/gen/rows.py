"""Row domains for the scalar table t: cross product of small adversarial per-column
domains over the columns a filter references (capped, sampled beyond), other columns fixed."""
import datetime as dt
import itertools

DOMAIN = {
    "a": [None, -3, -1, 0, 1, 2, 7],
    "b": [None, -1, 0, 1, 2, 7],
    "c": [None, -3, 0, 2, 7],
    "s": [None, "", "a", "ab", "b%", "a_c", "o'x", "x\\y", " pad ", "abcabc", "bc", "a%41b", "a+b",
          "e\u0301", "P1D", "true", "(a"],
    "u": [None, "", "a", "b", "c", "ab", "%", "_", "o'x", "a\\nb", "&amp;", "null", "1.5"],
    "d": [None, dt.datetime(2020, 1, 1, 0, 0, 0), dt.datetime(2019, 12, 31, 23, 59, 59),
          dt.datetime(2021, 6, 15, 12, 30, 45), dt.datetime(2000, 2, 29, 6, 7, 8),
          dt.datetime(1, 1, 1, 0, 0, 0), dt.datetime(9999, 12, 31, 23, 59, 59)],
    "flag": [None, True, False],
    "f": [-1.5, -0.5, 0.5, 2.0, 2.5, 7.25],
    "g": [None, "6c0e37e3-e856-45ee-bd58-484b11882c67", "00000000-0000-0000-0000-000000000001"],
    "dd": [None, dt.date(2020, 1, 1), dt.date(2019, 12, 31), dt.date(2021, 6, 15)],
    "m": [None, 100.12, 0.3, -1.5, 7.25, 999.99, 0.0],
    # an interval column (ORM backends only): small values, both signs, and values of ~411 years
    # that differ by one microsecond (beyond what a double holds in seconds)
    "iv": [None, dt.timedelta(0), dt.timedelta(days=1), dt.timedelta(days=1, hours=2), dt.timedelta(days=-2),
           dt.timedelta(milliseconds=500), dt.timedelta(days=150000), dt.timedelta(days=150000, microseconds=1),
           dt.timedelta(days=150000, microseconds=2), dt.timedelta(days=-150000, microseconds=-1)],
}
# machine-number rows: Int64 extremes and non-dyadic fractions, where regrouping or
# reordering arithmetic changes the result although no intermediate value of the source
# grouping leaves its type's range
BOUNDARY = dict(DOMAIN, **{
    "a": [9223372036854775807, -9223372036854775807, 4611686018427387904, 3, None],
    "b": [1, -1, 2, 4611686018427387904],
    "c": [-1, -3, 1, None],
    "f": [0.1, 0.2, 0.3, 0.7, 1e16, -0.1],
})
DEFAULT = {"a": 1, "b": 2, "c": None, "s": "ab", "u": "b", "d": dt.datetime(2020, 1, 1),
           "flag": True, "f": 2.5, "g": None, "dd": dt.date(2020, 1, 1), "m": 7.25,
           "iv": dt.timedelta(days=1)}
COLS = ["a", "b", "c", "s", "u", "d", "flag", "f", "g", "dd", "m", "iv"]


def rows_for(cols, rng, cap=400, domain=None):
    domain = domain or DOMAIN
    cols = [c for c in COLS if c in cols]
    doms = [domain[c] for c in cols]
    total = 1
    for d in doms:
        total *= len(d)
    combos = []
    if total <= cap:
        combos = list(itertools.product(*doms))
    else:
        seen = set()
        # make sure every value of every column occurs, then sample
        for i, d in enumerate(doms):
            for v in d:
                combo = tuple(v if j == i else rng.choice(doms[j]) for j in range(len(doms)))
                seen.add(combo)
        while len(seen) < cap:
            seen.add(tuple(rng.choice(d) for d in doms))
        combos = sorted(seen, key=repr)
    rows = []
    for n, combo in enumerate(combos or [()]):
        r = dict(DEFAULT)
        r.update(dict(zip(cols, combo)))
        r["id"] = n + 1
        rows.append(r)
    return rows
