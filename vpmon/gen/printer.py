"""Reference printer: term -> OData filter text.

Knows only the specification's precedence table (terms.LEVEL), left associativity of
binary operators, and two documented library deviations: a single-item list is written
"(x,)" and the right operand of `in` must be a list literal (never re-parenthesised).

mode "min"  : only the parentheses precedence/associativity require
mode "full" : every operator node in its own parentheses
mode "rand" : "min" plus redundant parentheses with probability p (needs rng)
"""
from .terms import LEVEL, PRIMARY, level

_KW = {"add", "sub", "mul", "div", "mod", "eq", "ne", "lt", "le", "gt", "ge", "in",
       "and", "or", "not"}


class Style:
    """Layout hooks; the default is the canonical layout (single spaces)."""

    def req(self):          # required whitespace (around operators, after not)
        return " "

    def opt(self, default=""):   # optional whitespace (inside parentheses, around , and :)
        return default

    def kw(self, word):     # operator / literal keyword
        return word

    def lit(self, kind, text):   # spelling of a non-string literal
        return text


DEFAULT = Style()


def quote(s):
    return "'" + s.replace("'", "''") + "'"


class Printer:
    def __init__(self, mode="min", rng=None, p=0.25, style=DEFAULT):
        self.mode, self.rng, self.p, self.style = mode, rng, p, style

    # -- helpers ---------------------------------------------------------------------
    def _paren(self, s):
        st = self.style
        return "(" + st.opt() + s + st.opt() + ")"

    def _maybe_extra(self, s, allowed=True):
        if self.mode == "rand" and allowed and self.rng.random() < self.p:
            return self._paren(s)
        return s

    def _operand(self, t, need):
        """Print child t; need=True when precedence requires parentheses."""
        s = self.p_(t)
        is_op = t[0] in ("bin", "cmp", "bool", "un")
        if need:
            return self._paren(s)
        if self.mode == "full" and is_op:
            return self._paren(s)
        return self._maybe_extra(s)

    # -- main ------------------------------------------------------------------------
    def render(self, t):
        s = self.p_(t)
        if self.mode == "full" and t[0] in ("bin", "cmp", "bool", "un"):
            return self._paren(s)
        return s

    def p_(self, t):
        st = self.style
        k = t[0]
        if k == "id":
            return ".".join(t[2] + (t[1],))
        if k == "attr":
            return self.p_(t[1]) + "/" + t[2]
        if k == "lit":
            kind, text = t[1], t[2]
            if kind == "str":
                return quote(text)
            if kind == "geo":
                return st.kw("geography") + "'" + text + "'"
            if kind == "duration":
                return st.kw("duration") + "'" + st.lit(kind, text) + "'"
            if kind in ("bool", "null"):
                return st.kw(text)
            return st.lit(kind, text)
        if k == "list":
            items = t[1]
            body = (st.opt() + "," + st.opt(" ")).join(self._operand(x, False) for x in items)
            if len(items) == 1:
                body += st.opt() + ","
            return "(" + st.opt() + body + st.opt() + ")"
        if k in ("bin", "cmp", "bool"):
            op, l, r = t[1], t[2], t[3]
            L = LEVEL[op]
            ls = self._operand(l, level(l) < L)
            if op == "in":
                rs = self.p_(r)  # list literal, never wrapped
            else:
                rs = self._operand(r, level(r) <= L)
            return ls + st.req() + st.kw(op) + st.req() + rs
        if k == "un":
            op, x = t[1], t[2]
            xs = self._operand(x, level(x) < LEVEL[op])
            if op == "not":
                return st.kw("not") + st.req() + xs
            # unary minus: "-1" would lex as a negative literal, so keep a space before
            # anything that starts with a digit or a sign
            if xs[:1].isdigit() or xs[:1] in "+-.":
                return "- " + xs
            # the grammar has optional whitespace between the sign and a non-literal operand
            return "-" + st.opt() + xs
        if k == "call":
            name, args = t[1], t[2]
            if not args:
                return name + "()"
            if args[0][0] == "np":
                body = (st.opt() + "," + st.opt(" ")).join(
                    self.p_(a[1]) + "=" + self._operand(a[2], False) for a in args)
            else:
                body = (st.opt() + "," + st.opt(" ")).join(
                    self._operand(a, False) for a in args)
            return name + "(" + st.opt() + body + st.opt() + ")"
        if k == "np":
            return self.p_(t[1]) + "=" + self._operand(t[2], False)
        if k == "lam":
            owner, quant, var, body = t[1], t[2], t[3], t[4]
            s = self.p_(owner) + "/" + st.kw(quant) + "("
            if var is None:
                return s + st.opt() + ")"
            return (s + st.opt() + var + st.opt() + ":" + st.opt(" ")
                    + self._operand(body, False) + st.opt() + ")")
        raise ValueError(t)


def to_text(t, mode="min", rng=None, p=0.25, style=DEFAULT):
    return Printer(mode, rng, p, style).render(t)
