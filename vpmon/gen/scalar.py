"""Typed generator over a fixed schema: gen(rng, type, depth, profile) -> term.

The generator knows every sub-term's type by construction, so it never produces
ill-typed filters.  A *profile* restricts it to the fragment one backend supports.

Types: "int" "float" "str" "bool" "datetime" "date" "time" "guid" "duration" "geo"
       ("list", T)
"""
from . import terms as T

# column -> type (the harness table t; id is the primary key and never used in filters)
SCHEMA = {"a": "int", "b": "int", "c": "int", "s": "str", "u": "str", "d": "datetime",
          "flag": "bool", "f": "float"}
EXTRA_SCHEMA = {"g": "guid", "dd": "date", "m": "decimal", "iv": "duration"}
# durations compared with the interval column iv: stored values, their neighbours one microsecond away
IV_LITS = ["P1D", "PT24H", "P1DT2H", "PT26H", "-P2D", "PT0.5S", "PT0S", "P150000D", "P150000DT0.000001S",
           "P150000DT0.000002S", "-P150000DT0.000001S", "P149999DT24H", "PT0.000001S", "P150000DT0.000003S"]
# literals compared with the fixed-point column m (5 digits, 2 decimals): some carry more
# digits than the column keeps, some sit exactly on / next to stored values
DEC_LITS = ["100.12", "100.125", "100.115", "0.3", "0.30000000000000004", "0.2999", "-1.5", "-1.505",
            "7.25", "7.254", "999.99", "999.994", "1000", "7", "0"]

INT_LITS = ["-3", "-1", "0", "1", "2", "7"]
FLOAT_LITS = ["0.5", "-1.5", "2.0", "2.5", "7.25", "-0.5",
              # exponent notation, integral and not (a renderer must keep them decimals)
              "1e1", "1.5e1", "-1.0E+1", "250e-1", "2.5e-1", "7E0"]
STR_LITS = ["", "a", "ab", "b%", "a_c", "o'x", "x\\y", " pad ", "abcabc", "%", "_", "bc",
            "c", "--", "a;b",
            # shapes that an (unwanted) input transformation would alter: percent-encoding,
            # plus-as-space, backslash escapes, non-NFC text, entities
            "a%41b", "a+b", "a\\nb", "e\u0301", "&amp;",
            # contents that spell a literal of another kind / a keyword / an operator
            "P1D", "pt5m", "-P1Y2M", "2020-01-01", "10:00:00", "true", "null", "1.5", "1e1",
            "6c0e37e3-e856-45ee-bd58-484b11882c67", "a eq b", "not", "(", ")", "(a", "b)"]
DT_LITS = ["2020-01-01T00:00:00", "2019-12-31T23:59:59", "2021-06-15T12:30:45",
           "2000-02-29T06:07:08", "0001-01-01T00:00:00", "9999-12-31T23:59:59"]
DATE_LITS = ["2020-01-01", "2019-12-31", "2021-06-15", "2000-02-29", "0001-01-01", "9999-12-31"]
TIME_LITS = ["00:00:00", "12:30:45", "23:59:59"]
GUID_LITS = ["6c0e37e3-e856-45ee-bd58-484b11882c67", "00000000-0000-0000-0000-000000000001"]
DUR_LITS = ["P1D", "PT1H", "P1DT2H3M4S", "-P2D", "PT0.5S"]
GEO_LITS = ["POINT(1 2)", "POLYGON((0 0, 0 1, 1 1, 1 0, 0 0))"]
LITS = {"int": INT_LITS, "float": FLOAT_LITS, "str": STR_LITS, "datetime": DT_LITS,
        "date": DATE_LITS, "time": TIME_LITS, "guid": GUID_LITS, "duration": DUR_LITS,
        "geo": GEO_LITS, "bool": ["true", "false"]}

# function -> list of (argument types, return type).  "num" = int or float.
FUNCS = {
    "contains": [(("str", "str"), "bool")],
    "startswith": [(("str", "str"), "bool")],
    "endswith": [(("str", "str"), "bool")],
    "matchesPattern": [(("str", "str"), "bool")],
    "length": [(("str",), "int")],
    "indexof": [(("str", "str"), "int")],
    "substring": [(("str", "int"), "str"), (("str", "int", "int"), "str")],
    "tolower": [(("str",), "str")],
    "toupper": [(("str",), "str")],
    "trim": [(("str",), "str")],
    "concat": [(("str", "str"), "str")],
    "year": [(("datetime",), "int"), (("date",), "int")],
    "month": [(("datetime",), "int"), (("date",), "int")],
    "day": [(("datetime",), "int"), (("date",), "int")],
    "hour": [(("datetime",), "int"), (("time",), "int")],
    "minute": [(("datetime",), "int"), (("time",), "int")],
    "second": [(("datetime",), "int"), (("time",), "int")],
    "fractionalseconds": [(("datetime",), "float"), (("time",), "float")],
    "totalseconds": [(("duration",), "float")],
    "totaloffsetminutes": [(("datetime",), "int")],
    "date": [(("datetime",), "date")],
    "time": [(("datetime",), "time")],
    "now": [((), "datetime")],
    "mindatetime": [((), "datetime")],
    "maxdatetime": [((), "datetime")],
    # (an integer argument is promoted: the result is still a decimal number)
    "round": [(("float",), "float"), (("int",), "float")],
    "floor": [(("float",), "float"), (("int",), "float")],
    "ceiling": [(("float",), "float"), (("int",), "float")],
    "geo.distance": [(("geo", "geo"), "float")],
    "geo.length": [(("geo",), "float")],
    "geo.intersects": [(("geo", "geo"), "bool")],
    "hassubset": [((("list", "int"), ("list", "int")), "bool")],
    "hassubsequence": [((("list", "int"), ("list", "int")), "bool")],
}
LIST_FUNCS = {
    "length": [((("list", "int"),), "int")],
    "concat": [((("list", "int"), ("list", "int")), ("list", "int"))],
    "substring": [((("list", "int"), "int"), ("list", "int")),
                  ((("list", "int"), "int", "int"), ("list", "int"))],
}


class Profile:
    """What may be generated.  Everything is a plain attribute so checks can tweak it."""

    def __init__(self, **kw):
        self.funcs = set(FUNCS)                # allowed function names
        self.list_funcs = False                # length/concat/substring on list literals
        self.columns = dict(SCHEMA)
        self.types = {"int", "float", "str", "bool", "datetime"}   # types with comparisons
        self.arith = {"add", "sub", "mul", "div", "mod"}
        self.float_arith = True
        self.str_add = False                   # `add` on strings (concatenation; SQLAlchemy only)
        self.neg = True                        # unary minus on non-literals
        self.neg_literal = True                # "- 1" (UnaryOp on a literal)
        self.bare_bool_column = True           # `flag` used as a predicate by itself
        self.bare_bool_literal = False         # `true` / `false` used as a predicate by itself
        self.bare_bool_func = True             # contains(..) used bare
        self.bool_func_cmp = True              # contains(..) eq true
        self.bool_cmp = True                   # flag eq true / contains(..) eq flag
        self.bool_cmp_atoms = True             # (a gt 1) eq true / flag eq (b lt 2)
        self.null_left = False                 # null eq a
        self.null_cmp = True                   # x eq null / x ne null
        self.null_cmp_expr = True              # (a add 1) eq null
        self.in_lists = True
        self.lit_left = True                   # 1 lt a
        self.not_op = True
        self.str_lits = STR_LITS
        self.int_lits = INT_LITS
        self.pattern_columns = True            # contains(s, u): column-valued pattern
        self.pattern_exprs = True              # contains(s, tolower(u))
        self.max_list = 3
        self.same_operands = True              # e op e, X and X, X or not X, not not X
        self.field_chains = True               # x eq 1 or x eq 2 or x eq null
        self.unique_leaves = False             # C09: every leaf occurrence unique
        self.__dict__.update(kw)
        self._uid = 0

    def fresh(self):
        self._uid += 1
        return self._uid


def _cols(p, typ):
    return [c for c, t in p.columns.items() if t == typ]


def gen_lit(rng, p, typ):
    if typ == "str":
        return T.S(rng.choice(p.str_lits))
    if typ == "int":
        return T.lit("int", rng.choice(p.int_lits))
    if isinstance(typ, tuple):
        n = rng.randint(1, p.max_list)
        return ("list", tuple(gen_lit(rng, p, typ[1]) for _ in range(n)))
    if typ == "decimal":
        v = rng.choice(DEC_LITS)
        return T.lit("float" if "." in v else "int", v)
    return T.lit(typ, rng.choice(getattr(p, typ + "_lits", None) or LITS[typ]))


def gen_leaf(rng, p, typ):
    cols = _cols(p, typ)
    if cols and rng.random() < 0.6:
        return T.ident(rng.choice(cols))
    return gen_lit(rng, p, typ)


def _funcs_returning(p, typ):
    out = []
    for name, sigs in FUNCS.items():
        if name not in p.funcs:
            continue
        for args, ret in sigs:
            if ret == typ:
                out.append((name, args))
    if p.list_funcs:
        for name, sigs in LIST_FUNCS.items():
            if name in p.funcs:
                for args, ret in sigs:
                    if ret == typ:
                        out.append((name, args))
    return out


def gen(rng, p, typ, depth):
    """A term of static type `typ`."""
    if typ == "bool":
        return gen_bool(rng, p, depth)
    if isinstance(typ, tuple):
        # list-typed value: a literal, or (nested) concat / substring over lists
        if depth > 0 and p.list_funcs and rng.random() < 0.45:
            cands = [(n, a) for n, sigs in LIST_FUNCS.items() if n in p.funcs
                     for a, ret in sigs if ret == typ]
            if cands:
                name, args = rng.choice(cands)
                return ("call", name, tuple(gen(rng, p, a, depth - 1) for a in args))
        return gen_lit(rng, p, typ)
    if depth <= 0:
        return gen_leaf(rng, p, typ)
    r = rng.random()
    if r < 0.30:
        return gen_leaf(rng, p, typ)
    if typ in ("int", "float") and r < 0.60 and p.arith:
        op = rng.choice(sorted(p.arith))
        lt = rt = typ
        if typ == "float":
            if not p.float_arith:
                return gen_leaf(rng, p, typ)
            # mixed int/float arithmetic is float
            lt, rt = rng.choice([("float", "float"), ("float", "int"), ("int", "float")])
            if op == "mod":
                op = "add"
        l = gen(rng, p, lt, depth - 1)
        if p.same_operands and lt == rt and rng.random() < 0.07:
            return ("bin", op, l, l)       # (a sub b) sub (a sub b): operands equal by value
        return ("bin", op, l, gen(rng, p, rt, depth - 1))
    if typ in ("int", "float") and r < 0.68 and (p.neg or p.neg_literal):
        x = gen(rng, p, typ, depth - 1)
        if x[0] == "lit" and not p.neg_literal:
            return x
        if x[0] != "lit" and not p.neg:
            return x
        if x[0] != "lit" and rng.random() < 0.12:
            for _ in range(rng.randint(1, 5)):      # stacked signs: - - - -(a add b)
                x = ("un", "neg", x)
        return ("un", "neg", x)
    if typ == "str" and p.str_add and r < 0.45:
        return ("bin", "add", gen(rng, p, "str", depth - 1), gen(rng, p, "str", depth - 1))
    fs = _funcs_returning(p, typ)
    if fs:
        name, args = rng.choice(fs)
        return ("call", name, tuple(gen_arg(rng, p, name, i, a, depth - 1)
                                    for i, a in enumerate(args)))
    return gen_leaf(rng, p, typ)


def gen_arg(rng, p, fname, i, typ, depth):
    if fname in ("contains", "startswith", "endswith") and i == 1:
        # the pattern operand: literal / column / expression according to the profile
        r = rng.random()
        if r < 0.6 or (not p.pattern_columns and not p.pattern_exprs):
            return gen_lit(rng, p, "str")
        if r < 0.8 and p.pattern_columns:
            return T.ident(rng.choice(_cols(p, "str")))
        if p.pattern_exprs:
            return gen(rng, p, "str", depth)
        return gen_lit(rng, p, "str")
    return gen(rng, p, typ, depth)


def gen_field_chain(rng, p):
    """Idiomatic runs an optimising translation would recognise: 2..6 comparisons of ONE
    field joined by one connective (`x eq 1 or x eq 2 or x eq null`, `x ne 1 and x ne null`,
    `x ge 1 and x le 7`), literals drawn with repetition, the null literal among them."""
    typ = rng.choice(sorted((p.types - {"bool"}) & {"int", "str", "float", "datetime"}))
    cols = _cols(p, typ)
    if not cols:
        return None
    col = T.ident(rng.choice(cols))
    con = rng.choice(["or", "and"])
    shape = rng.random()
    n = rng.randint(2, 6)
    atoms = []
    for _ in range(n):
        if shape < 0.6:
            op = "eq" if con == "or" else "ne"
        elif shape < 0.8:
            op = rng.choice(["eq", "ne"])
        else:
            op = rng.choice(["lt", "le", "gt", "ge", "eq", "ne"])
        if op in ("eq", "ne") and p.null_cmp and rng.random() < 0.25:
            lit = T.lit("null", "null")
        else:
            lit = gen_lit(rng, p, typ)
        atoms.append(("cmp", op, col, lit))
    t = atoms[0]
    for a in atoms[1:]:
        t = ("bool", con, t, a)
    return t


def gen_bool(rng, p, depth):
    if depth <= 0:
        return gen_atom(rng, p, 0)
    r = rng.random()
    if p.field_chains and r < 0.06:
        t = gen_field_chain(rng, p)
        if t is not None:
            return t
    if r < 0.40:
        return gen_atom(rng, p, depth)
    if r < 0.80:
        l = gen_bool(rng, p, depth - 1)
        if p.same_operands and rng.random() < 0.05:
            # X and X, X or not X: shapes a simplifier would fold
            rr = l if rng.random() < 0.5 or not p.not_op else ("un", "not", l)
            return ("bool", rng.choice(["and", "or"]), l, rr)
        return ("bool", rng.choice(["and", "or"]), l, gen_bool(rng, p, depth - 1))
    if r < 0.92 and p.not_op:
        x = gen_bool(rng, p, depth - 1)
        if p.same_operands and rng.random() < 0.08:
            return ("un", "not", ("un", "not", x))        # double negation
        return ("un", "not", x)
    if p.bool_cmp:
        op = rng.choice(["eq", "ne"])
        l = gen_bool_operand(rng, p, depth - 1)
        rr = gen_bool_operand(rng, p, depth - 1)
        return ("cmp", op, l, rr)
    return gen_atom(rng, p, depth)


def gen_bool_operand(rng, p, depth):
    """A boolean *value* operand of eq/ne: column, literal, comparison, function."""
    r = rng.random()
    cols = _cols(p, "bool")
    if r < 0.3 and cols:
        return T.ident(rng.choice(cols))
    if r < 0.5:
        return T.lit("bool", rng.choice(["true", "false"]))
    if not p.bool_cmp_atoms:
        fs = _funcs_returning(p, "bool")
        if not fs:
            return T.lit("bool", rng.choice(["true", "false"]))
        name, args = rng.choice(fs)
        return ("call", name, tuple(gen_arg(rng, p, name, i, a, depth - 1)
                                    for i, a in enumerate(args)))
    return gen_atom(rng, p, depth, allow_bare_col=False)


def gen_atom(rng, p, depth, allow_bare_col=True):
    """A boolean atom: comparison, in-list, null test, boolean function, bare bool column."""
    if p.bare_bool_literal and allow_bare_col and rng.random() < 0.04:
        return T.lit("bool", rng.choice(["true", "false"]))
    for _ in range(20):
        r = rng.random()
        if r < 0.50:
            typ = rng.choice(sorted(p.types - {"bool"}))
            op = rng.choice(["eq", "ne", "lt", "le", "gt", "ge"])
            l = gen(rng, p, typ, depth - 1)
            rr = gen(rng, p, typ, depth - 1)
            if p.same_operands and rng.random() < 0.05:
                rr = l          # the very same sub-expression on both sides (a add 1 eq a add 1)
            if typ == "float":
                # int/float mixing in comparisons
                if rng.random() < 0.3:
                    rr = gen(rng, p, "int", depth - 1)
            if typ == "int" and "float" in p.types and rng.random() < 0.2:
                # ... and the other way round: an integer-typed expression against a decimal
                rr = gen(rng, p, "float", max(0, depth - 2))
            if l[0] == "lit" and not p.lit_left:
                l, rr = rr, l
                if l[0] == "lit":
                    l = gen_leaf_col(rng, p, typ)
            return ("cmp", op, l, rr)
        if r < 0.62 and p.in_lists:
            typ = rng.choice(sorted(p.types - {"bool", "float"}))
            needle = gen(rng, p, typ, depth - 1)
            if needle[0] == "lit" and not p.lit_left:
                needle = gen_leaf_col(rng, p, typ)
            n = rng.randint(1, p.max_list)
            return ("cmp", "in", needle, ("list", tuple(gen_lit(rng, p, typ) for _ in range(n))))
        if r < 0.72 and p.null_cmp:
            typ = rng.choice(sorted(p.types))
            if typ == "bool" and p.null_cmp_expr and p.bool_cmp_atoms and depth > 0 and rng.random() < 0.5:
                # null test of a boolean *expression*: (not flag) ne null, null eq (a gt 1 or b lt 2)
                rr = rng.random()
                if rr < 0.35:
                    x = ("un", "not", gen_bool_operand(rng, p, depth - 1))
                elif rr < 0.7:
                    x = ("bool", rng.choice(["and", "or"]), gen_atom(rng, p, depth - 1, False),
                         gen_atom(rng, p, depth - 1, False))
                else:
                    x = gen_atom(rng, p, depth - 1, allow_bare_col=False)
                if x[0] in ("lit", "id"):
                    x = ("un", "not", T.ident("flag")) if "flag" in p.columns else x
                t = ("cmp", rng.choice(["eq", "ne"]), x, T.lit("null", "null"))
                if p.null_left and rng.random() < 0.5:
                    t = ("cmp", t[1], t[3], t[2])
                return t
            if p.null_cmp_expr and rng.random() < 0.3 and typ != "bool":
                x = gen(rng, p, typ, max(0, depth - 1))
                if x[0] == "lit":
                    x = gen_leaf_col(rng, p, typ)
            else:
                x = gen_leaf_col(rng, p, typ)
            t = ("cmp", rng.choice(["eq", "ne"]), x, T.lit("null", "null"))
            if p.null_left and rng.random() < 0.3:
                t = ("cmp", t[1], t[3], t[2])
            return t
        if r < 0.90:
            fs = _funcs_returning(p, "bool")
            if not fs:
                continue
            name, args = rng.choice(fs)
            callt = ("call", name, tuple(gen_arg(rng, p, name, i, a, depth - 1)
                                         for i, a in enumerate(args)))
            if p.bool_func_cmp and (not p.bare_bool_func or rng.random() < 0.35):
                return ("cmp", rng.choice(["eq", "ne"]), callt,
                        T.lit("bool", rng.choice(["true", "false"])))
            if p.bare_bool_func:
                return callt
            continue
        cols = _cols(p, "bool")
        if cols:
            c = T.ident(rng.choice(cols))
            if p.bare_bool_column and allow_bare_col and rng.random() < 0.4:
                return c
            return ("cmp", rng.choice(["eq", "ne"]), c,
                    T.lit("bool", rng.choice(["true", "false"])))
    return ("cmp", "eq", T.ident("a"), T.I(1))


def gen_leaf_col(rng, p, typ):
    cols = _cols(p, typ)
    if cols:
        return T.ident(rng.choice(cols))
    return gen_lit(rng, p, typ)


def columns_of(t):
    return sorted({n[1] for n in T.walk(t) if n[0] == "id" and not n[2]})


def conforms(t, p):
    """True when term t stays inside the fragment described by profile p (used to keep
    shrunk witnesses inside the backend's supported fragment)."""
    NULL = ("lit", "null", "null")

    def boolish(n):
        return n[0] in ("cmp", "bool") or (n[0] == "un" and n[1] == "not")

    def walk(n, bool_position):
        k = n[0]
        if k == "id":
            if bool_position and not p.bare_bool_column:
                return False
            return True
        if k == "lit":
            if bool_position:
                return n[1] == "bool" and p.bare_bool_literal
            return True
        if k == "list":
            return all(walk(x, False) for x in n[1])
        if k == "bool":
            return walk(n[2], True) and walk(n[3], True)
        if k == "un":
            if n[1] == "not":
                return p.not_op and walk(n[2], True)
            if n[2][0] == "lit":
                return p.neg_literal
            return p.neg and walk(n[2], False)
        if k == "bin":
            if n[1] == "add" and (n[2][0] == "lit" and n[2][1] == "str" or
                                  n[3][0] == "lit" and n[3][1] == "str") and not p.str_add:
                return False
            return n[1] in p.arith and walk(n[2], False) and walk(n[3], False)
        if k == "cmp":
            l, r = n[2], n[3]
            if NULL in (l, r):
                other = l if r == NULL else r
                if other[0] == "lit" or not p.null_cmp:
                    return False
                if l == NULL and not p.null_left:
                    return False
                if other[0] != "id" and not p.null_cmp_expr:
                    return False
                return walk(other, False)
            if n[1] == "in":
                if not p.in_lists:
                    return False
            if (boolish(l) or boolish(r)) and not p.bool_cmp_atoms:
                return False
            if l[0] == "lit" and not p.lit_left:
                return False
            return walk(l, False) and walk(r, False)
        if k == "call":
            if n[1] not in p.funcs:
                return False
            if n[1] in ("contains", "startswith", "endswith") and len(n[2]) == 2:
                pat = n[2][1]
                if pat[0] == "id" and not p.pattern_columns:
                    return False
                if pat[0] not in ("id", "lit") and not p.pattern_exprs:
                    return False
                if pat[0] == "lit" and pat[1] == "str" and pat[2] not in p.str_lits \
                        and any(c in pat[2] for c in "%_") and \
                        not any(any(c in s for c in "%_") for s in p.str_lits):
                    return False
            return all(walk(a, False) for a in n[2])
        return False
    return walk(t, True)


def simple_filter_for(rng, p, fname):
    """A small Bool-rooted filter that uses function `fname` once (coverage prelude, so that no
    function's presence in a run depends on chance)."""
    args, ret = FUNCS[fname][0]
    callt = ("call", fname, tuple(gen_arg(rng, p, fname, i, a, 0) for i, a in enumerate(args)))
    if ret == "bool":
        return callt if p.bare_bool_func else ("cmp", "eq", callt, T.lit("bool", "true"))
    return ("cmp", rng.choice(["eq", "ne", "lt", "ge"]), callt, gen_leaf(rng, p, ret))
