"""Logical-step monitor (sys.monitoring, Python 3.12+): counts function starts inside the
library's grammar module (lexer token actions, grammar actions, helpers) plus the tokens
pulled by the parser.  Used for the bounded-progress restatement of "parsing terminates"
and for the reach table (which productions / handlers fired)."""
import os
import sys

TOOL = 3  # sys.monitoring tool id (free slot)


class StepBoundExceeded(Exception):
    pass


class StepMonitor:
    def __init__(self, path_filter):
        self.filter = path_filter          # substring that the code's filename must contain
        self.steps = 0
        self.bound = None
        self.reach = {}                    # (qualname, firstlineno) -> count
        self.active = False
        self.want_reach = True

    def start(self):
        mon = sys.monitoring
        try:
            mon.use_tool_id(TOOL, "vpmon-steps")
        except ValueError:
            pass
        mon.register_callback(TOOL, mon.events.PY_START, self._on_start)
        mon.set_events(TOOL, mon.events.PY_START)
        self.active = True

    def stop(self):
        mon = sys.monitoring
        mon.set_events(TOOL, 0)
        mon.register_callback(TOOL, mon.events.PY_START, None)
        try:
            mon.free_tool_id(TOOL)
        except Exception:
            pass
        self.active = False

    def _on_start(self, code, offset):
        if self.filter not in code.co_filename:
            return sys.monitoring.DISABLE
        self.steps += 1
        if self.want_reach:
            k = (code.co_qualname, code.co_firstlineno)
            self.reach[k] = self.reach.get(k, 0) + 1
        if self.bound is not None and self.steps > self.bound:
            b = self.bound
            self.bound = None
            raise StepBoundExceeded("more than %d grammar steps" % b)

    def reset(self, bound=None):
        self.steps = 0
        self.bound = bound


def counted_tokens(gen, counter):
    for tok in gen:
        counter[0] += 1
        yield tok
