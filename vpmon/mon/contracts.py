"""Monitors installed from outside onto the real functions of the library.

icontract supplies the pre/post-condition plumbing (named condition functions and an
explicit error= class, see DESIGN 1.3); the halves icontract cannot see (state after a
*raise*) are plain try/finally wrappers next to the contract and are counted the same
way.  Every monitor counts its evaluations in COUNTS: a check whose deciding monitor
shows zero evaluations is inconclusive, never "held".
"""
import collections
import threading

try:
    import icontract
    HAVE_ICONTRACT = True
except Exception:  # pragma: no cover - shim so a dependency problem is never a verdict
    icontract = None
    HAVE_ICONTRACT = False

from odata_query import ast, exceptions, visitor as _visitor
from odata_query import grammar as _grammar

from ..ref.decode import decode, DecodeError

COUNTS = collections.Counter()
_installed = set()
_tls = threading.local()


class MonitorViolation(Exception):
    """Raised by a monitor in the thread that made the call."""

    def __init__(self, monitor, detail):
        super().__init__("%s: %s" % (monitor, detail))
        self.monitor, self.detail = monitor, detail


class ParseResultBroken(MonitorViolation):
    def __init__(self, msg=""):
        MonitorViolation.__init__(self, "M-parse", msg)


class InferBroken(MonitorViolation):
    def __init__(self, msg=""):
        MonitorViolation.__init__(self, "M-infer", msg)


def _ensure(cond, error):
    """icontract.ensure with a named condition; tiny shim when icontract is missing."""
    if HAVE_ICONTRACT:
        return icontract.ensure(cond, error=error)

    def deco(fn):
        import functools
        import inspect
        sig = inspect.signature(fn)

        @functools.wraps(fn)
        def w(*a, **k):
            result = fn(*a, **k)
            b = sig.bind(*a, **k)
            kwargs = dict(b.arguments)
            names = inspect.signature(cond).parameters
            call = {n: (result if n == "result" else kwargs[n]) for n in names}
            if not cond(**call):
                raise error(**call) if callable(error) else error
            return result
        return w
    return deco


# --------------------------------------------------------------------------------------
# M-parse: ODataParser.parse returns an AST node (or raises; the class of the exception is
# judged by the driver, which sees it at the client boundary)
# --------------------------------------------------------------------------------------
def _parse_result_is_node(result):
    COUNTS["M-parse"] += 1
    return isinstance(result, ast._Node)


def _parse_error(result):
    return ParseResultBroken("parse() returned %r (%s), not an AST node"
                             % (result, type(result).__name__))


def install_parse():
    if "parse" in _installed:
        return
    _installed.add("parse")
    P = _grammar.ODataParser
    P.parse = _ensure(_parse_result_is_node, _parse_error)(P.parse)


# --------------------------------------------------------------------------------------
# M-call: record every _function_call decision (name, n_args, outcome)
# --------------------------------------------------------------------------------------
CALL_LOG = []


def install_function_call():
    if "fcall" in _installed:
        return
    _installed.add("fcall")
    P = _grammar.ODataParser
    orig = P._function_call

    def _function_call(self, func, args):
        COUNTS["M-call"] += 1
        try:
            name = func.full_name()
        except Exception:
            name = repr(func)
        try:
            n = len(args)
        except Exception:
            n = None
        try:
            res = orig(self, func, args)
        except BaseException as e:
            CALL_LOG.append((name, n, "raise", type(e).__name__))
            raise
        CALL_LOG.append((name, n, "ok", type(res).__name__))
        return res

    P._function_call = _function_call


# --------------------------------------------------------------------------------------
# Visit tracing: M-immut (argument tree unchanged, also when the visit raises),
# M-fall (fall-through into NodeVisitor.generic_visit), M-part (nested visit results)
# --------------------------------------------------------------------------------------
class Trace:
    __slots__ = ("events", "falls", "want_parts")

    def __init__(self, want_parts=False):
        self.events = []     # (visitor class name, node, result)   when want_parts
        self.falls = []      # (visitor class name, node class name)
        self.want_parts = want_parts


class ImmutBroken(MonitorViolation):
    def __init__(self, msg=""):
        MonitorViolation.__init__(self, "M-immut", msg)


def _instance_attrs(node):
    """Names stored on every node OBJECT of the tree (fields and anything else that found
    its way into an instance __dict__, e.g. a cached_property), iteratively."""
    import dataclasses
    out, stack, seen = [], [node], 0
    while stack and seen < 200000:
        x = stack.pop()
        seen += 1
        if dataclasses.is_dataclass(x) and not isinstance(x, type):
            d = getattr(x, "__dict__", None)
            out.append((type(x).__name__, tuple(sorted(d)) if d is not None else ()))
            for f in dataclasses.fields(x):
                stack.append(getattr(x, f.name, None))
        elif isinstance(x, (list, tuple)):
            stack.extend(x)
    return tuple(out)


def _snapshot(node):
    try:
        return (decode(node), _instance_attrs(node))
    except (DecodeError, KeyError, AttributeError, RecursionError):
        return None


def install_visit_trace():
    if "visit" in _installed:
        return
    _installed.add("visit")
    NV = _visitor.NodeVisitor
    orig_visit = NV.visit
    orig_generic = NV.generic_visit

    def visit(self, node):
        depth = getattr(_tls, "depth", 0)
        tr = getattr(_tls, "trace", None)
        if depth == 0:
            snap = _snapshot(node)
            _tls.depth = 1
            try:
                res = orig_visit(self, node)
            finally:
                _tls.depth = 0
                COUNTS["M-immut"] += 1
                if snap is not None:
                    after = _snapshot(node)
                    if after != snap:
                        raise ImmutBroken("%s.visit changed its argument: before=%r after=%r"
                                          % (type(self).__name__, snap, after))
            if tr is not None and tr.want_parts:
                tr.events.append((type(self).__name__, node, res))
            return res
        _tls.depth = depth + 1
        try:
            res = orig_visit(self, node)
        finally:
            _tls.depth = depth
        if tr is not None and tr.want_parts:
            COUNTS["M-part"] += 1
            tr.events.append((type(self).__name__, node, res))
        return res

    def generic_visit(self, node):
        tr = getattr(_tls, "trace", None)
        if tr is not None:
            COUNTS["M-fall"] += 1
            tr.falls.append((type(self).__name__, type(node).__name__))
        return orig_generic(self, node)

    NV.visit = visit
    NV.generic_visit = generic_visit


class tracing:
    """with tracing(want_parts) as tr: ... (per thread)"""

    def __init__(self, want_parts=False):
        self.tr = Trace(want_parts)

    def __enter__(self):
        self.prev = getattr(_tls, "trace", None)
        _tls.trace = self.tr
        return self.tr

    def __exit__(self, *a):
        _tls.trace = self.prev
        return False


# --------------------------------------------------------------------------------------
# M-infer: typing.infer_type returns None or a _Literal subclass; for a literal its class
# --------------------------------------------------------------------------------------
INFER_SCHEMA = None     # set by C18: every result, whoever asks and with whatever keywords, is
                        # compared with the reference type of the node (when that is pinned)


def _infer_ok(node, result):
    COUNTS["M-infer"] += 1
    if result is None:
        return True
    if not (isinstance(result, type) and issubclass(result, ast._Literal)):
        return False
    if isinstance(node, ast._Literal):
        return result is type(node)
    if INFER_SCHEMA is not None:
        from ..ref.decode import decode
        from ..ref.types import static_type, class_name
        try:
            want = class_name(static_type(decode(node), INFER_SCHEMA))
        except Exception:
            want = None
        COUNTS["M-infer-vs-reference"] += 1
        if want is not None and result.__name__ != want:
            return False
    return True


def _infer_error(node, result):
    return InferBroken("infer_type(%r) = %r" % (node, result))


def install_infer():
    if "infer" in _installed:
        return
    _installed.add("infer")
    from odata_query import typing as _typing
    _typing.infer_type = _ensure(_infer_ok, _infer_error)(_typing.infer_type)


def install_all():
    install_parse()
    install_function_call()
    install_visit_trace()
    install_infer()


def snapshot_counts():
    return dict(COUNTS)


def flush_counts(ctx):
    for k, v in COUNTS.items():
        ctx.count(k, v)
    COUNTS.clear()
