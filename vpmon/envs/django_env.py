"""Django environment of the harness: settings.configure in the worker, in-memory SQLite,
tables created with the schema editor.  M-drv: connection.execute_wrapper records every
(sql, params) pair handed to the driver."""
import contextlib

_ready = False
DRV_LOG = []


def setup():
    global _ready
    if _ready:
        return
    import django
    from django.conf import settings
    if not settings.configured:
        import os
        tz = os.environ.get("VP_DJANGO_TZ")      # e.g. America/Chicago: Django's own default configuration
        settings.configure(
            DEBUG=False,
            USE_TZ=bool(tz),
            **({"TIME_ZONE": tz} if tz else {}),
            DATABASES={"default": {"ENGINE": "django.db.backends.sqlite3", "NAME": ":memory:"}},
            INSTALLED_APPS=["vpmon.envs.vp_djapp.apps.VpDjappConfig"],
            DEFAULT_AUTO_FIELD="django.db.models.AutoField",
        )
    django.setup()
    from django.db import connection
    from .vp_djapp import models as M
    with connection.schema_editor() as ed:
        for m in (M.T, M.Region, M.Country, M.Author, M.Profile, M.Tag, M.Post, M.Comment):
            ed.create_model(m)
    _ready = True


def models():
    setup()
    from .vp_djapp import models as M
    return M


def connection():
    from django.db import connection as c
    return c


def _wrapper(execute, sql, params, many, context):
    DRV_LOG.append((sql, params))
    return execute(sql, params, many, context)


@contextlib.contextmanager
def driver_trace():
    """with driver_trace() as log: ...   log = [(sql, params), ...] as handed to the driver"""
    del DRV_LOG[:]
    with connection().execute_wrapper(_wrapper):
        yield DRV_LOG


SCALAR_COLS = ["id", "a", "b", "c", "s", "u", "d", "flag", "f", "g", "dd", "m", "iv"]


def load_scalar(rows):
    """rows: list of dicts with the SCALAR_COLS keys (python values)."""
    M = models()
    M.T.objects.all().delete()
    M.T.objects.bulk_create([M.T(**r) for r in rows])


def load_relational(inst):
    """inst: dict of lists of row dicts: country, author, tag, post, comment, post_tags."""
    M = models()
    for m in (M.Comment, M.Post, M.Tag, M.Profile, M.Author, M.Country, M.Region):
        m.objects.all().delete()
    M.Region.objects.bulk_create([M.Region(**r) for r in inst["region"]])
    M.Country.objects.bulk_create([M.Country(id=r["id"], name=r["name"], code=r["code"],
                                             region_id=r["region_id"]) for r in inst["country"]])
    M.Author.objects.bulk_create([M.Author(id=r["id"], name=r["name"], age=r["age"],
                                           country_id=r["country_id"], home_id=r.get("home_id"))
                                  for r in inst["author"]])
    M.Profile.objects.bulk_create([M.Profile(id=r["id"], bio=r["bio"], level=r["level"],
                                             author_id=r["author_id"]) for r in inst.get("profile", [])])
    M.Tag.objects.bulk_create([M.Tag(**r) for r in inst["tag"]])
    M.Post.objects.bulk_create([M.Post(id=r["id"], title=r["title"], rating=r["rating"],
                                       author_id=r["author_id"], home_id=r.get("home_id"))
                                for r in inst["post"]])
    M.Comment.objects.bulk_create([M.Comment(id=r["id"], text=r["text"], score=r["score"],
                                             post_id=r["post_id"], author_id=r["author_id"])
                                   for r in inst["comment"]])
    # self references second (a reply may have a lower id than its parent in random instances)
    for r in inst["comment"]:
        if r.get("parent_id") is not None:
            M.Comment.objects.filter(id=r["id"]).update(parent_id=r["parent_id"])
    Through = M.Post.tags.through
    Through.objects.bulk_create([Through(post_id=p, tag_id=t) for p, t in inst["post_tags"]])
    Through2 = M.Post.labels.through
    Through2.objects.bulk_create([Through2(post_id=p, tag_id=t) for p, t in inst.get("post_labels", [])])
