"""SQLAlchemy environment of the harness: in-memory SQLite engine, declarative models
mirroring the Django ones, Core tables, M-drv via before_cursor_execute.

strpos/concat do not exist in SQLite 3.40: they are registered per connection as
user-defined functions with PostgreSQL semantics so that argument order and the index
shift of indexof/concat stay observable (listed under assumptions)."""
import contextlib

import sqlalchemy as sa
from sqlalchemy import event
from sqlalchemy.ext.hybrid import hybrid_property
from sqlalchemy.orm import declarative_base, relationship, Session
from sqlalchemy.pool import StaticPool

Base = declarative_base()

post_tags = sa.Table(
    "post_tags", Base.metadata,
    sa.Column("post_id", sa.ForeignKey("post.id"), primary_key=True),
    sa.Column("tag_id", sa.ForeignKey("tag.id"), primary_key=True),
)

post_labels = sa.Table(
    "post_labels", Base.metadata,
    sa.Column("post_id", sa.ForeignKey("post.id"), primary_key=True),
    sa.Column("tag_id", sa.ForeignKey("tag.id"), primary_key=True),
)


class T(Base):
    __tablename__ = "t"
    id = sa.Column(sa.Integer, primary_key=True)
    a = sa.Column(sa.Integer)
    b = sa.Column(sa.Integer)
    c = sa.Column(sa.Integer)
    s = sa.Column(sa.String)
    u = sa.Column(sa.String)
    d = sa.Column(sa.DateTime)
    flag = sa.Column(sa.Boolean)
    f = sa.Column(sa.Float, nullable=False)
    g = sa.Column(sa.String)
    dd = sa.Column(sa.Date)
    m = sa.Column(sa.Numeric(5, 2))
    iv = sa.Column(sa.Interval)
    # a text column whose TYPE declares a collation (C08 only: no row carries a value)
    sc = sa.Column(sa.String(collation="NOCASE"))
    # a column whose name is not an attribute of the entity (unknown to the ORM, known to Core)
    hidden_ = sa.Column("hidden_col", sa.Integer)


class Region(Base):
    __tablename__ = "region"
    id = sa.Column(sa.Integer, primary_key=True)
    name = sa.Column(sa.String, nullable=False)
    size = sa.Column(sa.Integer, nullable=False)
    countries = relationship("Country", back_populates="region")


class Country(Base):
    __tablename__ = "country"
    id = sa.Column(sa.Integer, primary_key=True)
    name = sa.Column(sa.String, nullable=False)
    code = sa.Column(sa.Integer, nullable=False)
    # the one mandatory (NOT NULL) foreign key of the harness schema
    region_id = sa.Column(sa.ForeignKey("region.id"), nullable=False)
    # NOT NULL key, so the mapping may legitimately carry the loader hint innerjoin=True
    region = relationship("Region", back_populates="countries", innerjoin=True)
    authors = relationship("Author", back_populates="country")


class Author(Base):
    __tablename__ = "author"
    id = sa.Column(sa.Integer, primary_key=True)
    name = sa.Column(sa.String, nullable=False)
    age = sa.Column(sa.Integer, nullable=False)
    country_id = sa.Column(sa.ForeignKey("country.id"))
    country = relationship("Country", back_populates="authors")
    home_id = sa.Column(sa.ForeignKey("region.id"))
    home = relationship("Region")
    posts = relationship("Post", back_populates="author")
    comments = relationship("Comment", back_populates="author")
    # one-to-one seen from the side that does not hold the key
    profile = relationship("Profile", back_populates="author", uselist=False)


class Profile(Base):
    __tablename__ = "profile"
    id = sa.Column(sa.Integer, primary_key=True)
    bio = sa.Column(sa.String, nullable=False)
    level = sa.Column(sa.Integer, nullable=False)
    author_id = sa.Column(sa.ForeignKey("author.id"), unique=True)
    author = relationship("Author", back_populates="profile")


class Tag(Base):
    __tablename__ = "tag"
    id = sa.Column(sa.Integer, primary_key=True)
    label = sa.Column(sa.String, nullable=False)
    weight = sa.Column(sa.Integer, nullable=False)
    posts = relationship("Post", secondary=post_tags, back_populates="tags")


class Post(Base):
    __tablename__ = "post"
    id = sa.Column(sa.Integer, primary_key=True)
    title = sa.Column(sa.String, nullable=False)
    rating = sa.Column(sa.Integer, nullable=False)
    author_id = sa.Column(sa.ForeignKey("author.id"))
    author = relationship("Author", back_populates="posts")
    home_id = sa.Column(sa.ForeignKey("country.id"), nullable=False)
    home = relationship("Country", lazy="joined")      # mapper-level eager loading (joins an anonymous alias)
    comments = relationship("Comment", back_populates="post")
    tags = relationship("Tag", secondary=post_tags, back_populates="posts")
    labels = relationship("Tag", secondary=post_labels)

    # fields the mapper knows as extension descriptors, not as columns
    @hybrid_property
    def double_rating(self):
        return self.rating * 2

    @hybrid_property
    def title_lc(self):
        return self.title.lower()

    @title_lc.expression
    def title_lc(cls):
        return sa.func.lower(cls.title)


class Comment(Base):
    __tablename__ = "comment"
    id = sa.Column(sa.Integer, primary_key=True)
    text = sa.Column(sa.String, nullable=False)
    score = sa.Column(sa.Integer, nullable=False)
    post_id = sa.Column(sa.ForeignKey("post.id"))
    author_id = sa.Column(sa.ForeignKey("author.id"))
    post = relationship("Post", back_populates="comments")
    author = relationship("Author", back_populates="comments")
    # self-referential collection (adjacency list)
    parent_id = sa.Column(sa.ForeignKey("comment.id"))
    replies = relationship("Comment", back_populates="parent")
    parent = relationship("Comment", back_populates="replies", remote_side=[id])


# schema decorations a translation might consult: partial / plain / unique indexes
sa.Index("ix_t_s_when_a_positive", T.s, sqlite_where=T.a > 0, postgresql_where=T.a > 0)
sa.Index("ix_t_u_when_flag", T.u, sqlite_where=T.flag.is_(True), postgresql_where=T.flag.is_(True))
sa.Index("ix_t_b", T.b)
sa.Index("ix_post_title_when_rated", Post.title, sqlite_where=Post.rating > 0,
         postgresql_where=Post.rating > 0)
sa.Index("ix_author_name", Author.name)

_engine = None
DRV_LOG = []


def _strpos(s, sub):
    if s is None or sub is None:
        return None
    return s.find(sub) + 1


def _concat(*args):
    # PostgreSQL concat(): NULL arguments are ignored
    return "".join("" if a is None else str(a) for a in args)


def engine():
    global _engine
    if _engine is None:
        _engine = sa.create_engine("sqlite://", poolclass=StaticPool,
                                   connect_args={"check_same_thread": False})

        @event.listens_for(_engine, "connect")
        def _on_connect(dbapi_con, rec):
            dbapi_con.create_function("strpos", 2, _strpos, deterministic=True)
            dbapi_con.create_function("concat", -1, _concat, deterministic=True)
            # SQLAlchemy's pysqlite dialect installs a floor() UDF that raises on NULL;
            # replace it (and ceil) by NULL-safe ones so NULL data is not a harness error
            import math
            dbapi_con.create_function(
                "floor", 1, lambda x: None if x is None else math.floor(x), deterministic=True)
            dbapi_con.create_function(
                "ceil", 1, lambda x: None if x is None else math.ceil(x), deterministic=True)

        @event.listens_for(_engine, "before_cursor_execute")
        def _before(conn, cursor, statement, parameters, context, executemany):
            DRV_LOG.append((statement, parameters))
        Base.metadata.create_all(_engine)
    return _engine


def session():
    return Session(engine())


@contextlib.contextmanager
def driver_trace():
    del DRV_LOG[:]
    yield DRV_LOG


def load_scalar(rows):
    with engine().begin() as con:
        con.execute(T.__table__.delete())
        if rows:
            rows = [dict(r, g=(str(r["g"]) if r.get("g") is not None else None)) for r in rows]
            con.execute(T.__table__.insert(), rows)


def load_relational(inst):
    with engine().begin() as con:
        for tb in (post_tags, post_labels, Comment.__table__, Post.__table__, Tag.__table__, Profile.__table__,
                   Author.__table__, Country.__table__, Region.__table__):
            con.execute(tb.delete())
        for name, tb in (("region", Region.__table__), ("country", Country.__table__), ("author", Author.__table__),
                         ("profile", Profile.__table__),
                         ("tag", Tag.__table__), ("post", Post.__table__),
                         ("comment", Comment.__table__)):
            if inst.get(name):
                con.execute(tb.insert(), inst[name])
        if inst["post_tags"]:
            con.execute(post_tags.insert(), [{"post_id": p, "tag_id": t}
                                             for p, t in inst["post_tags"]])
        if inst.get("post_labels"):
            con.execute(post_labels.insert(), [{"post_id": p, "tag_id": t}
                                               for p, t in inst["post_labels"]])
