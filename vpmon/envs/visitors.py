"""Every shipped visitor as a callable node -> result (for C12 / C16 / M-immut)."""
from odata_query import ast
from odata_query.rewrite import AliasRewriter, IdentifierStripper
from odata_query.roundtrip import AstToODataVisitor
from odata_query.sql import AstToSqlVisitor
from odata_query.sql.athena import AstToAthenaSqlVisitor
from odata_query.sql.sqlite import AstToSqliteSqlVisitor

RUNNERS = {}
EXPECTED = ["sql-standard", "sql-sqlite", "sql-athena", "sql-alias", "roundtrip", "alias-rewriter",
            "identifier-stripper", "django", "sqlalchemy-orm", "sqlalchemy-core"]
_done = False


def setup():
    global _done
    if _done:
        return
    _done = True
    RUNNERS["sql-standard"] = lambda n: AstToSqlVisitor().visit(n)
    RUNNERS["sql-sqlite"] = lambda n: AstToSqliteSqlVisitor().visit(n)
    RUNNERS["sql-athena"] = lambda n: AstToAthenaSqlVisitor().visit(n)
    RUNNERS["sql-alias"] = lambda n: AstToSqlVisitor(table_alias="tb").visit(n)
    RUNNERS["roundtrip"] = lambda n: AstToODataVisitor().visit(n)
    RUNNERS["alias-rewriter"] = lambda n: AliasRewriter(
        {"a": "x/y", "name": "tolower(nm)", "author/name": "an", "title": "t2"}).visit(n)
    RUNNERS["identifier-stripper"] = lambda n: IdentifierStripper(ast.Identifier("x")).visit(n)
    from . import django_env, sqla_env
    django_env.setup()
    from odata_query.django.django_q import AstToDjangoQVisitor
    M = django_env.models()
    RUNNERS["django"] = lambda n: AstToDjangoQVisitor(M.Post).visit(n)
    from odata_query.sqlalchemy.orm import AstToSqlAlchemyOrmVisitor
    from odata_query.sqlalchemy.core import AstToSqlAlchemyCoreVisitor
    RUNNERS["sqlalchemy-orm"] = lambda n: AstToSqlAlchemyOrmVisitor(sqla_env.Post).visit(n)
    RUNNERS["sqlalchemy-core"] = lambda n: AstToSqlAlchemyCoreVisitor(
        sqla_env.Post.__table__).visit(n)
