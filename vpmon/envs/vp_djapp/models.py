"""Harness models (not the repository's test models): one scalar table and a small
relational schema Country <- Author <- Post <- Comment, Tag <-> Post; all FKs nullable."""
from django.db import models


class T(models.Model):
    a = models.IntegerField(null=True)
    b = models.IntegerField(null=True)
    c = models.IntegerField(null=True)
    s = models.CharField(max_length=200, null=True)
    u = models.CharField(max_length=200, null=True)
    d = models.DateTimeField(null=True)
    flag = models.BooleanField(null=True)
    f = models.FloatField()
    g = models.UUIDField(null=True)
    dd = models.DateField(null=True)
    # a fixed-point column: literals may carry more digits than the column keeps
    m = models.DecimalField(max_digits=5, decimal_places=2, null=True)
    iv = models.DurationField(null=True)

    class Meta:
        app_label = "vp_djapp"
        db_table = "t"
        indexes = [models.Index(fields=["s"], condition=models.Q(a__gt=0), name="ix_dj_t_s_when_a"),
                   models.Index(fields=["b"], name="ix_dj_t_b")]


class Region(models.Model):
    name = models.CharField(max_length=50)
    size = models.IntegerField()

    class Meta:
        app_label = "vp_djapp"
        db_table = "region"


class Country(models.Model):
    name = models.CharField(max_length=50)
    code = models.IntegerField()
    # the one mandatory (NOT NULL) foreign key of the harness schema
    region = models.ForeignKey(Region, on_delete=models.CASCADE, related_name="countries")

    class Meta:
        app_label = "vp_djapp"
        db_table = "country"


class Author(models.Model):
    name = models.CharField(max_length=50)
    age = models.IntegerField()
    country = models.ForeignKey(Country, null=True, on_delete=models.SET_NULL,
                                related_name="authors")
    home = models.ForeignKey(Region, null=True, on_delete=models.SET_NULL, related_name="+")

    class Meta:
        app_label = "vp_djapp"
        db_table = "author"


class Profile(models.Model):
    bio = models.CharField(max_length=50)
    level = models.IntegerField()
    # Author.profile is the reverse side of this one-to-one
    author = models.OneToOneField(Author, null=True, on_delete=models.SET_NULL,
                                  related_name="profile")

    class Meta:
        app_label = "vp_djapp"
        db_table = "profile"


class Tag(models.Model):
    label = models.CharField(max_length=50)
    weight = models.IntegerField()

    class Meta:
        app_label = "vp_djapp"
        db_table = "tag"


class VisibleManager(models.Manager):
    """A second, pre-filtering manager (not the default one)."""

    def get_queryset(self):
        return super().get_queryset().filter(rating__gte=5)


class Post(models.Model):
    objects = models.Manager()
    visible = VisibleManager()
    title = models.CharField(max_length=50)
    rating = models.IntegerField()
    author = models.ForeignKey(Author, null=True, on_delete=models.SET_NULL,
                               related_name="posts")
    home = models.ForeignKey(Country, on_delete=models.CASCADE, related_name="+")   # NOT NULL
    tags = models.ManyToManyField(Tag, related_name="posts", db_table="post_tags")
    # attribute name on Tag and name in queries from Tag differ (both are declared)
    labels = models.ManyToManyField(Tag, related_name="labelled_posts", related_query_name="labelled",
                                    db_table="post_labels")

    class Meta:
        app_label = "vp_djapp"
        db_table = "post"
        indexes = [models.Index(fields=["title"], condition=models.Q(rating__gt=0),
                                name="ix_dj_post_title_rated")]


class Comment(models.Model):
    text = models.CharField(max_length=50)
    score = models.IntegerField()
    post = models.ForeignKey(Post, null=True, on_delete=models.SET_NULL,
                             related_name="comments")
    author = models.ForeignKey(Author, null=True, on_delete=models.SET_NULL,
                               related_name="comments")
    # self-referential collection: Comment.replies
    parent = models.ForeignKey("self", null=True, on_delete=models.SET_NULL, related_name="replies")

    class Meta:
        app_label = "vp_djapp"
        db_table = "comment"
