from django.apps import AppConfig


class VpDjappConfig(AppConfig):
    name = "vpmon.envs.vp_djapp"
    label = "vp_djapp"
    default_auto_field = "django.db.models.AutoField"
