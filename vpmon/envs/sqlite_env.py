"""Raw SQLite environment (C01/C19): one in-memory database, table t reloaded per filter."""
import sqlite3

_con = None
COLS = ["id", "a", "b", "c", "s", "u", "d", "flag", "f", "g", "dd", "m"]


def con():
    global _con
    if _con is None:
        _con = sqlite3.connect(":memory:")
        _con.execute("CREATE TABLE t(id INTEGER PRIMARY KEY, a INTEGER, b INTEGER, c INTEGER, "
                     "s TEXT, u TEXT, d TEXT, flag INTEGER, f REAL NOT NULL, g TEXT, dd TEXT, m NUMERIC)")
    return _con


def _adapt(v):
    import datetime as dt
    if isinstance(v, dt.datetime):
        return v.replace(microsecond=0).isoformat(sep=" ")   # strftime does not zero-pad years < 1000
    if isinstance(v, dt.date):
        return v.isoformat()
    if isinstance(v, bool):
        return int(v)
    return v


def load(rows):
    c = con()
    c.execute("DELETE FROM t")
    c.executemany("INSERT INTO t VALUES (?,?,?,?,?,?,?,?,?,?,?,?)",
                  [tuple(_adapt(r.get(k)) for k in COLS) for r in rows])
    c.commit()


def select_ids(where):
    return sorted(r[0] for r in con().execute("SELECT id FROM t WHERE " + where))
